import CloakModel.Model.ServerConfig

/-! C09 "the configured redirect target" (links to C07 "authorised", C06 "a method it serves"):
theorems about `Model/ServerConfig.lean`, i.e. about the term regenerated from `parseRedirAddr` (Gen.ServerCfg.redirSplit),
the key arrays of `InitState`/`IsBypass` and the loop of `parseProxyBook`.

EXTERNAL, not modelled: `net.ResolveIPAddr` (parameter `resolve`), so "the configured host" below is the text handed to
the resolver; that the resolver maps an IP literal to itself in canonical form is Go's. -/
namespace C09T
open SCfg

/-! ### strings.Split -/

theorem split1_snd_length (c : Char) (s : Str) : (split1 c s).2.length = s.count c := by
  induction s with
  | nil => simp [split1]
  | cons x xs ih =>
    by_cases h : x = c
    · subst h; simp [split1, ih]
    · have : (x == c) = false := by simpa using h
      simp [split1, h, ih, List.count_cons, this]

theorem splitOn_length (c : Char) (s : Str) : (splitOn c s).length = s.count c + 1 := by
  simp [splitOn, split1_snd_length]

theorem split1_no (c : Char) (s : Str) (h : c ∉ s) : split1 c s = (s, []) := by
  induction s with
  | nil => simp [split1]
  | cons x xs ih =>
    have hx : x ≠ c := fun e => h (by simp [e])
    have hxs : c ∉ xs := fun e => h (by simp [e])
    simp [split1, hx, ih hxs]

theorem splitOn_no (c : Char) (s : Str) (h : c ∉ s) : splitOn c s = [s] := by
  simp [splitOn, split1_no c s h]

theorem splitOn_append_sep (c : Char) (a b : Str) : splitOn c (a ++ c :: b) = splitOn c a ++ splitOn c b := by
  induction a with
  | nil => simp [splitOn, split1]
  | cons x xs ih =>
    simp only [splitOn] at ih ⊢
    by_cases h : x = c
    · subst h
      simp only [List.cons_append, split1, if_true]
      rw [ih]; simp
    · simp only [List.cons_append, split1, h, if_false]
      have e1 := congrArg List.head? ih
      have e2 := congrArg List.tail ih
      simp at e1 e2
      simp [e1, e2]

/-! ### TrimPrefix / TrimSuffix -/

theorem stripPrefix_append (p r : Str) : stripPrefix p (p ++ r) = some r := by
  induction p with
  | nil => simp [stripPrefix]
  | cons x xs ih => simp [stripPrefix, ih]

theorem trimSuffix_append (a suf : Str) : trimSuffix (a ++ suf) suf = a := by
  simp [trimSuffix, List.reverse_append, stripPrefix_append]

theorem trimPrefix_append (pre r : Str) : trimPrefix (pre ++ r) pre = r := by
  simp [trimPrefix, stripPrefix_append]

/-! ### the documented forms of RedirAddr, for ALL strings of each form -/

theorem e58 : Char.ofNat 58 = ':' := rfl
theorem e91 : Char.ofNat 91 = '[' := rfl
theorem e93 : Char.ofNat 93 = ']' := rfl

/-- `host` (domain or IPv4, no port): the whole text goes to the resolver, no port -/
theorem split_host (h : Str) (hc : ':' ∉ h) : redirSplit h = some (h, []) := by
  simp [redirSplit, Gen.ServerCfg.redirSplit, e58, splitOn_no ':' h hc]

/-- `host:port` -/
theorem split_host_port (h p : Str) (hc : ':' ∉ h) (pc : ':' ∉ p) : redirSplit (h ++ ':' :: p) = some (h, p) := by
  have : splitOn ':' (h ++ ':' :: p) = [h, p] := by
    rw [splitOn_append_sep, splitOn_no ':' h hc, splitOn_no ':' p pc]; rfl
  simp [redirSplit, Gen.ServerCfg.redirSplit, e58, this]

/-- `[v6]:port`, for every bracketed text containing a colon (any zone, any characters) -/
theorem split_bracket (h p : Str) (hc : ':' ∈ h) (pc : ':' ∉ p) :
    redirSplit ('[' :: (h ++ ']' :: ':' :: p)) = some (h, p) := by
  have e : ('[' :: (h ++ ']' :: ':' :: p)) = ('[' :: (h ++ [']'])) ++ ':' :: p := by simp
  have hs : splitOn ':' ('[' :: (h ++ ']' :: ':' :: p)) = splitOn ':' ('[' :: (h ++ [']'])) ++ [p] := by
    rw [e, splitOn_append_sep, splitOn_no ':' p pc]
  have hl : 2 ≤ (splitOn ':' ('[' :: (h ++ [']']))).length := by
    rw [splitOn_length]
    have : 0 < List.count ':' ('[' :: (h ++ [']'])) := List.count_pos_iff.mpr (by simp [hc])
    omega
  have e2 : ('[' :: (h ++ ']' :: ':' :: p)) = ('[' :: h) ++ ([']', ':'] ++ p) := by simp
  have ht : trimSuffix ('[' :: (h ++ ']' :: ':' :: p)) (']' :: ':' :: p) = '[' :: h := by
    rw [e2]; exact trimSuffix_append ('[' :: h) ([']', ':'] ++ p)
  have hp : trimPrefix ('[' :: h) ['['] = h := trimPrefix_append ['['] h
  have hcont : contains ('[' :: (h ++ ']' :: ':' :: p)) '[' = true := by simp [contains]
  have hlen : ¬ ((splitOn ':' ('[' :: (h ++ [']']))).length + 1 = 2) := by omega
  have hgt : (splitOn ':' ('[' :: (h ++ [']']))).length + 1 > 1 := by omega
  simp only [redirSplit, Gen.ServerCfg.redirSplit, e58, e91, e93]
  simp only [hs, List.length_append, List.length_singleton]
  simp [hlen, hgt, hcont, ht, hp]

/-- bare IPv6 (two or more colons, no bracket): the whole text goes to the resolver, no port -/
theorem split_bare_v6 (s : Str) (h2 : 2 ≤ s.count ':') (nb : '[' ∉ s) : redirSplit s = some (s, []) := by
  have hl := splitOn_length ':' s
  have hcont : contains s '[' = false := by simpa [contains] using nb
  have h1 : (splitOn ':' s).length > 1 := by omega
  have h3 : ¬ (splitOn ':' s).length = 2 := by omega
  simp [redirSplit, Gen.ServerCfg.redirSplit, e58, e91, h1, h3, hcont]

/-- HEADLINE: the split is the inverse of `net.JoinHostPort`, for every host and every port without ':' -/
theorem split_join (h p : Str) (pc : ':' ∉ p) : redirSplit (joinHostPort h p) = some (h, p) := by
  unfold joinHostPort
  by_cases hc : ':' ∈ h
  · have : contains h ':' = true := by simpa [contains] using hc
    simp only [this, if_true]
    exact split_bracket h p hc pc
  · have : contains h ':' = false := by simpa [contains] using hc
    simp only [this]
    exact split_host_port h p hc pc

example : redirSplit (joinHostPort "fe80::1%eth0".toList "8443".toList) = some ("fe80::1%eth0".toList, "8443".toList) := by decide
example : redirSplit "example.com:443".toList = some ("example.com".toList, "443".toList) := by decide
example : redirSplit "2001:db8::1".toList = some ("2001:db8::1".toList, []) := by decide

/-- no RedirAddr makes `parseRedirAddr` panic (every index into the split result is in range) -/
theorem redirSplit_total (s : Str) : ∃ r, redirSplit s = some r := by
  simp only [redirSplit, Gen.ServerCfg.redirSplit]
  generalize splitOn (Char.ofNat 58) s = l
  rcases l with _ | ⟨a, _ | ⟨b, _ | ⟨c, t⟩⟩⟩
  · simp
  · simp
  · simp
  · have : ((a :: b :: c :: t).getLast?) = some ((a :: b :: c :: t).getLast (by simp)) := List.getLast?_eq_some_getLast (by simp)
    by_cases hb : contains s (Char.ofNat 91) = true <;> simp [hb, this]

theorem parseRedirAddr_no_panic (resolve : Str → Option Str) (s : Str) : parseRedirAddr resolve s ≠ .panic := by
  obtain ⟨r, hr⟩ := redirSplit_total s
  unfold parseRedirAddr
  rw [hr]
  cases h : resolve r.1 <;> simp [h]

/-! ### the address dialled for an unauthenticated peer -/

/-- HEADLINE: a RedirAddr written as `JoinHostPort h p` (i.e. `h:p`, or `[h]:p` for a host with colons), `p` non-empty:
`goWeb` dials `JoinHostPort (resolved h) p`, whatever the local address of the connection is -/
theorem c09_target_with_port (resolve : Str → Option Str) (h p a lp : Str) (pc : ':' ∉ p) (pne : p ≠ [])
    (hr : resolve h = some a) :
    ∃ host port, parseRedirAddr resolve (joinHostPort h p) = .ok host port ∧ dialAddr host port lp = joinHostPort a p := by
  refine ⟨a, p, ?_, ?_⟩
  · simp [parseRedirAddr, split_join h p pc, hr]
  · simp [dialAddr, pne]

/-- a RedirAddr without a port (`host`, or bare IPv6): `goWeb` dials the resolved host at the port of the connection's
local address -/
theorem c09_target_default_port (resolve : Str → Option Str) (s a lp : Str)
    (form : ':' ∉ s ∨ (2 ≤ s.count ':' ∧ '[' ∉ s)) (hr : resolve s = some a) :
    ∃ host port, parseRedirAddr resolve s = .ok host port ∧ dialAddr host port lp = joinHostPort a lp := by
  have hs : redirSplit s = some (s, []) := by
    rcases form with f | ⟨f1, f2⟩
    · exact split_host s f
    · exact split_bare_v6 s f1 f2
  refine ⟨a, [], ?_, ?_⟩
  · simp [parseRedirAddr, hs, hr]
  · simp [dialAddr]

/-- a host the resolver refuses is an error of `parseRedirAddr` (and of `InitState`), never a relay elsewhere -/
theorem c09_target_unresolvable (resolve : Str → Option Str) (h p : Str) (pc : ':' ∉ p) (hr : resolve h = none) :
    parseRedirAddr resolve (joinHostPort h p) = .err := by
  simp [parseRedirAddr, split_join h p pc, hr]

example : parseRedirAddr (fun h => some h) "[::1]:80".toList = .ok "::1".toList "80".toList ∧
    dialAddr "::1".toList "80".toList "443".toList = "[::1]:80".toList := by decide

/-! ### outside the documented forms: what the code does (stated, and compared with the real code by T2) -/

/-- `host:` (empty port) is taken as "no port": the local port is used -/
theorem odd_empty_port (h : Str) (hc : ':' ∉ h) : redirSplit (h ++ [':']) = some (h, []) := by
  simpa using split_host_port h [] hc (by simp)

/-- `[h]:p` around a host WITHOUT a colon (e.g. `[1.2.3.4]:80`) keeps the brackets in the text given to the resolver -/
theorem odd_bracket_no_colon (h p : Str) (hc : ':' ∉ h) (pc : ':' ∉ p) :
    redirSplit ('[' :: (h ++ ']' :: ':' :: p)) = some ('[' :: (h ++ [']']), p) := by
  have hb : ':' ∉ ('[' :: (h ++ [']'])) := by simp [hc]
  have := split_host_port ('[' :: (h ++ [']'])) p hb pc
  simpa using this

/-- `[::1]` without a port: the resolver is asked for `::1]` (which no resolver accepts: an error, not a relay) -/
theorem odd_bracket_no_port : redirSplit "[::1]".toList = some ("::1]".toList, "1]".toList) := by decide

/-- an unset RedirAddr reaches the resolver as the empty host (Go resolves it to the empty address: the server starts and
relays to ":<local port>", i.e. to itself — observation, see selftest/C09target.md) -/
theorem odd_empty : redirSplit [] = some ([], []) := by decide

/-! ### BypassUID / AdminUID table (C07's "a UID the server currently authorises") -/

theorem gen_key_len : keyLen = 16 := by decide

theorem gen_admin_added (n : Nat) : Gen.ServerCfg.initAdminKeyAdded (n : Int) = true ↔ n ≠ 0 := by
  unfold Gen.ServerCfg.initAdminKeyAdded; simp

theorem key_length (n : Nat) (u : Bytes) : (key n u).length = n := by
  simp [key]; omega

theorem key_exact (n : Nat) (u : Bytes) (h : u.length = n) : key n u = u := by
  simp [key, h, List.take_of_length_le]

/-- HEADLINE: `IsBypass uid` ⇔ some configured entry (or the non-empty AdminUID) has the same truncated / zero-padded
16-byte key — for all tables and all uids -/
theorem isBypass_iff (b : List Bytes) (a uid : Bytes) :
    isBypass (bypassTable b a) uid = true ↔
      ∃ e, (e ∈ b ∨ (e = a ∧ a ≠ [])) ∧ key keyLen e = key keyLen uid := by
  unfold isBypass bypassTable
  by_cases ha : a = []
  · subst ha
    simp [Gen.ServerCfg.initAdminKeyAdded]
  · have hl : a.length ≠ 0 := by simpa using ha
    have : Gen.ServerCfg.initAdminKeyAdded (a.length : Int) = true := (gen_admin_added a.length).mpr hl
    simp [this, ha]
    constructor
    · rintro (h | h)
      · exact Or.inl h
      · exact Or.inr h.symm
    · rintro (h | h)
      · exact Or.inl h
      · exact Or.inr h.symm

/-- for a well-formed configuration (16-byte entries) and a 16-byte UID: exactly the listed UIDs are bypass users -/
theorem c07_bypass_wellformed (b : List Bytes) (a uid : Bytes) (hb : ∀ e ∈ b, e.length = 16)
    (ha : a = [] ∨ a.length = 16) (hu : uid.length = 16) :
    isBypass (bypassTable b a) uid = true ↔ uid ∈ b ∨ uid = a := by
  rw [isBypass_iff, gen_key_len]
  constructor
  · rintro ⟨e, he | ⟨he, hne⟩, hk⟩
    · rw [key_exact 16 e (hb e he), key_exact 16 uid hu] at hk; subst hk; exact Or.inl he
    · subst he
      rcases ha with ha | ha
      · exact absurd ha hne
      · rw [key_exact 16 e ha, key_exact 16 uid hu] at hk; exact Or.inr hk.symm
  · rintro (h | h)
    · exact ⟨uid, Or.inl h, rfl⟩
    · subst h
      refine ⟨uid, Or.inr ⟨rfl, ?_⟩, rfl⟩
      intro e; rw [e] at hu; simp at hu

example : isBypass (bypassTable [[1,2,3]] []) ([1,2,3] ++ List.replicate 13 0) = true := by decide
/-- an entry of the wrong length is not refused: it authorises its zero-padded / truncated form -/
theorem bypass_short_entry_witness : isBypass (bypassTable [[1,2,3]] []) [1,2,3] = true ∧
    isBypass (bypassTable [List.replicate 20 7] []) (List.replicate 16 7) = true := by decide

/-! ### ProxyBook -/

theorem lowerC_idem (c : Char) : lowerC (lowerC c) = lowerC c := by
  unfold lowerC
  by_cases h : 'A' ≤ c ∧ c ≤ 'Z'
  · have h1 : 65 ≤ c.toNat := h.1
    have h2 : c.toNat ≤ 90 := h.2
    have hv : (c.toNat + 32).isValidChar := by
      left; omega
    have hn : (Char.ofNat (c.toNat + 32)).toNat = c.toNat + 32 := by
      rw [Char.ofNat, dif_pos hv]; rfl
    have : ¬ ('A' ≤ Char.ofNat (c.toNat + 32) ∧ Char.ofNat (c.toNat + 32) ≤ 'Z') := by
      intro ⟨_, k⟩
      have k' : (Char.ofNat (c.toNat + 32)).toNat ≤ 90 := k
      omega
    simp [h, this]
  · simp [h]

/-- the load stores under the lower-cased name and the dispatcher looks up the lower-cased method: idempotent -/
theorem lower_idem (s : Str) : lower (lower s) = lower s := by
  simp [lower, lowerC_idem]

/-- which entry ends up in the book: pair of length 2, network tcp/udp in any case, address resolves → stored under the
lower-cased name; network unknown → silently skipped; otherwise an error -/
theorem parseEntry_spec (resolve : String → Str → Option Str) (e : Entry) :
    parseEntry resolve e =
      match e.pair with
      | [nw, addr] =>
        (match bookResolver (lower nw) with
         | none => .skip
         | some r => match resolve r addr with
           | none => .err
           | some a => .store (lower e.name) a)
      | _ => .err := by
  unfold parseEntry Gen.ServerCfg.bookPairBad
  rcases h : e.pair with _ | ⟨a, _ | ⟨b, _ | ⟨c, t⟩⟩⟩ <;> simp
  all_goals (first | rfl | omega | (cases bookResolver (lower a) <;> first | rfl | (rename_i r; cases resolve r b <;> rfl)))

theorem gen_book_networks : bookResolver "tcp".toList = some "ResolveTCPAddr:tcp" ∧ bookResolver "udp".toList = some "ResolveUDPAddr:udp" ∧
    bookResolver "tcp4".toList = none ∧ bookResolver "unix".toList = none ∧ bookResolver [] = none ∧
    Gen.ServerCfg.bookCases.length = 2 := by decide

theorem parseEntry_no_panic (resolve : String → Str → Option Str) (e : Entry) : parseEntry resolve e ≠ .panic := by
  rw [parseEntry_spec]
  repeat' split
  all_goals simp

theorem parseProxyBook_no_panic (resolve : String → Str → Option Str) (es : List Entry) (b : Book) :
    parseProxyBook resolve es b ≠ .panic := by
  induction es generalizing b with
  | nil => simp [parseProxyBook]
  | cons e es ih =>
    unfold parseProxyBook
    cases h : parseEntry resolve e with
    | panic => exact absurd h (parseEntry_no_panic resolve e)
    | err => simp
    | skip => simpa using ih b
    | store k v => simpa using ih _

/-- an entry with an unknown network name is dropped WITHOUT an error (observation: the method is then not served and its
clients are relayed to the redirect target) -/
theorem book_unknown_network_dropped :
    parseProxyBook (fun _ a => some a) [⟨"ss".toList, ["tcp4".toList, "127.0.0.1:1".toList]⟩] [] = .ok [] ∧
    parseProxyBook (fun _ a => some a) [⟨"SS".toList, ["TCP".toList, "127.0.0.1:1".toList]⟩] [] = .ok [("ss".toList, "127.0.0.1:1".toList)] := by decide

/-! ### regenerated structure facts -/

theorem gen_structure :
    Gen.ServerCfg.redirResolveNetwork = "ip" ∧ Gen.ServerCfg.redirResolveErrIsError = true ∧
    Gen.ServerCfg.goWebDial = true ∧ Gen.ServerCfg.goWebDialNetwork = "tcp" ∧
    Gen.ServerCfg.bookKeyLowered = true ∧ Gen.ServerCfg.bookNetworkLowered = true ∧ Gen.ServerCfg.bookPairBadIsError = true ∧
    Gen.ServerCfg.bookHasDefault = false ∧ Gen.ServerCfg.bookLenTestFirst = true ∧ Gen.ServerCfg.bookReturnsBook = true ∧
    Gen.ServerCfg.dispatchLookupLowered = true ∧
    Gen.ServerCfg.initOrder = ["cnc", "manager", "panel", "keepalive", "redir", "book", "key", "pv", "admin", "bypass", "adminkey", "cleaner"] ∧
    Gen.ServerCfg.initErrReturns = 3 ∧ Gen.ServerCfg.initCncIsError = true ∧ Gen.ServerCfg.initKeyMissingIsError = true ∧
    Gen.ServerCfg.initVoidThenLocalElse = true ∧ Gen.ServerCfg.isBypassShape = true ∧ Gen.ServerCfg.initCopies = 3 ∧
    Gen.ServerCfg.initKeyCopiesWhole = true := by decide

theorem gen_init_exprs (ka : Int) (n : Nat) (d : Bool) :
    (Gen.ServerCfg.initKeepAliveCond ka = true ↔ ka ≤ 0) ∧ Gen.ServerCfg.initKeepAliveThen ka = -1 ∧
    Gen.ServerCfg.initKeepAliveElse ka = ka * 1000000000 ∧
    (Gen.ServerCfg.initKeyMissing (n : Int) = true ↔ n = 0) ∧
    (Gen.ServerCfg.initVoidManager (n : Int) d = true ↔ n = 0 ∨ d = true) ∧
    (Gen.ServerCfg.bookPairBad (n : Int) = true ↔ n ≠ 2) := by
  unfold Gen.ServerCfg.initKeepAliveCond Gen.ServerCfg.initKeepAliveThen Gen.ServerCfg.initKeepAliveElse
    Gen.ServerCfg.initKeyMissing Gen.ServerCfg.initVoidManager Gen.ServerCfg.bookPairBad
  refine ⟨by simp, by simp, by simp, by simp, by simp, by simp; omega⟩

example : ∃ s, initState { resolveIP := fun h => some h, resolveBook := fun _ a => some a, dbOpens := false }
    { proxyBook := [⟨"SS".toList, ["TCP".toList, "127.0.0.1:1".toList]⟩], bypassUID := [[1]], redirAddr := "1.2.3.4:80".toList,
      privateKey := [1], adminUID := [], dbPathEmpty := true, keepAlive := 5, cnc := false } = .ok s ∧
    s.proxyKeepAlive = 5000000000 ∧ s.redirPort = "80".toList ∧ bookGet s.book "ss".toList = some "127.0.0.1:1".toList :=
  ⟨_, rfl, by decide, by decide, by decide⟩

#print axioms split_join
#print axioms isBypass_iff

end C09T
