import CloakModel.Model.Sender
import CloakModel.Lemmas.SenderCore
import CloakModel.Lemmas.SenderOrder
import CloakModel.Lemmas.SenderClose

/-! # C13 — Each stream's frames carry unique, gap-free sequence numbers in write order

(1) what the extractor read from `stream.go`/`session.go` is what the proof needs (the obligations
that break when a send site leaves the mutex or `Seq++` moves); (2) every `Write`/`ReadFrom`/`Close`
program built from those facts is a sequence of critical sections; (3) for ANY number of concurrent
calls and ANY schedule: numbers consumed are `0,1,2,…` each once in critical-section order, the wire
carries a subsequence (failed sends skip, never reuse), a call that starts after another returned is
numbered above it (Close after completed writes), header nonces `(stream id, seq)` never repeat. -/
set_option linter.unusedVariables false
set_option linter.unusedSimpArgs false

namespace C13
open SN

/-! ## 1. Extracted facts -/

/-- the three call chains into `obfuscateAndSend` are under `writingM`, and `Seq++` directly follows
the encode (before the error return and before the send) -/
theorem gen_shape : SN.genShape = ⟨true, true, true, true, true⟩ := by decide

/-- the remaining structural facts: only the three modelled functions reach `obfuscateAndSend`;
`closeStream` sends only when active and its only non-passive call site is `Stream.Close`;
`writingFrame.Seq` is written by exactly one statement in the package (the `Seq++`), starts at 0 and
`obfuscate` does not modify the frame; `writingFrame.Closing` starts as `closingNothing`, is set once
(to `closingStream`, in `closeStream`) and never reset; stream ids come from one atomic counter that nothing else
touches; the session-closing notice is built in one place, after the session CAS. -/
theorem gen_structure :
    Gen.Sender.sendCallerCount = 3 ∧ Gen.Sender.sendCallersKnown = true ∧
    Gen.Sender.closeSendOnlyIfActive = true ∧ Gen.Sender.activeCloseSites = 1 ∧
    Gen.Sender.seqIncrCount = 1 ∧ Gen.Sender.seqWriteSites = 1 ∧ Gen.Sender.obfuscateWritesFrame = 0 ∧
    Gen.Sender.seqInit = 0 ∧
    Gen.Sender.closingWriteSites = 1 ∧ Gen.Sender.closingSetToStream = 1 ∧ Gen.Sender.closingInit = Gen.Sender.closingNothing ∧
    Gen.Sender.streamIdAtomic = true ∧ Gen.Sender.nextStreamIDUses = 1 ∧
    Gen.Sender.sessCloseOnce = true ∧ Gen.Sender.sessCloseSites = 1 ∧
    Gen.Sender.closingNothing = 0 ∧ Gen.Sender.closingStream = 1 ∧ Gen.Sender.closingSession = 2 ∧
    Gen.Sender.sessCloseClosing = Gen.Sender.closingSession := by decide

/-- allocator start and the reserved pair of the session-closing notice -/
theorem gen_ids :
    Gen.Sender.nextStreamIDInit = 1 ∧ Gen.Sender.sessCloseStreamID = 2^32 - 1 ∧ Gen.Sender.sessCloseSeq = 0 := by decide

/-! ## 2. The programs of the three calls are sequences of critical sections -/

theorem frames_adv (fs : List (Nat × Res)) :
    advs ⟨true, false, false⟩ (fs.flatMap (fun x => frameI true false x.1 x.2)) = some ⟨true, false, false⟩ := by
  induction fs with
  | nil => simp [advs]
  | cons x xs ih =>
    simp only [List.flatMap_cons]
    rw [advs_append]
    simp [frameI, advs, adv] at ih ⊢
    exact ih

theorem chunks_adv (cs : List (Nat × Res)) :
    advs idle (cs.flatMap (fun x => sect true (Instr.chk :: frameI true false x.1 x.2))) = some idle := by
  induction cs with
  | nil => simp [advs]
  | cons x xs ih =>
    simp only [List.flatMap_cons]
    rw [advs_append]
    simp [frameI, sect, advs, adv, idle] at ih ⊢
    exact ih

/-- **the tie**: with the facts extracted from the source, every call is well-formed; if a send site
were not under the mutex this is where the proof breaks -/
theorem call_wf (c : Call) : wf c.prog := by
  unfold Call.prog
  rw [gen_shape]
  cases c with
  | write fs =>
    simp only [Call.progW, sect, wf, if_true]
    have h := frames_adv fs
    simp only [advs, adv, idle, List.cons_append]
    rw [advs_append, h]
    simp [advs, adv]
  | readFrom cs =>
    simp only [Call.progW, wf]
    exact chunks_adv cs
  | close pl r =>
    simp [Call.progW, sect, wf, frameI, advs, adv, idle]

/-! ## 3. The property -/

theorem calls_inv (calls : List Call) : Inv (init (calls.map Call.prog)) := by
  apply init_inv
  intro p hp
  simp only [List.mem_map] at hp
  obtain ⟨c, _, rfl⟩ := hp
  exact call_wf c

/-- **C13 (gap-free).** Any number of concurrent `Write` (any number of frames each), `ReadFrom`
(any number of chunks) and `Close` calls on one stream, any outcome of every send (ok / connection
error / encode error), any schedule: the numbers consumed are `0,1,…,k−1`, each exactly once, in the
order of the `Seq++` steps (= order of the critical sections); `writingFrame.Seq` equals the count;
the frames that reached a connection are a subsequence — a failed send skips its number, nothing is
reused. -/
theorem c13_gapfree (calls : List Call) (sched : List Nat) :
    let s := runSched (init (calls.map Call.prog)) sched
    s.enc.map (·.seq) = List.range s.enc.length ∧ s.seq = s.enc.length ∧ s.wire.Sublist s.enc := by
  have h := run_inv sched _ (calls_inv calls)
  exact ⟨h.gapfree, h.seqLen, h.wire⟩

/-- consequence: on the wire the numbers are strictly increasing (so pairwise distinct) -/
theorem c13_wire_increasing (calls : List Call) (sched : List Nat) :
    let s := runSched (init (calls.map Call.prog)) sched
    (s.wire.map (·.seq)).Pairwise (· < ·) := by
  intro s
  have h := c13_gapfree calls sched
  have hsub : (s.wire.map (·.seq)).Sublist (s.enc.map (·.seq)) := h.2.2.map _
  rw [h.1] at hsub
  exact List.Pairwise.sublist hsub List.pairwise_lt_range

/-- only the holder of `writingM` consumes a number: between a call's `lock` and `unlock` every
frame appended to the log is its own (frames of one `Write` are contiguous) -/
theorem c13_section_exclusive (s s' : State) (u : Nat) (h : Inv s) (hs : step s u = some s') :
    s'.enc = s.enc ∨ (s.lock = some u ∧ ∃ f, s'.enc = s.enc ++ [f] ∧ f.owner = u ∧ f.seq = s.enc.length) := by
  unfold step at hs
  split at hs
  · simp at hs
  · rename_i th hth
    have hph := h.thr u th hth
    split at hs
    · simp at hs
    · split at hs
      · simp at hs; subst hs; left; rfl
      · simp at hs
    · simp at hs; subst hs; left; rfl
    · split at hs <;> (simp at hs; subst hs; left; rfl)
    · split at hs <;> (simp at hs; subst hs; left; rfl)
    · simp at hs; subst hs; left; rfl
    · rename_i p hp
      split at hs
      · rename_i f hcur hpend
        simp at hs; subst hs
        unfold TOK at hph; rw [hp] at hph
        have hw := inv_inc hph.1
        simp at hw
        obtain ⟨hown, hseq, _⟩ := hph.2 f hcur
        right
        exact ⟨hw.1.1, f, rfl, hown, by rw [hseq hpend, h.seqLen]⟩
      · simp at hs
    · split at hs
      · simp at hs
      · split at hs <;> (simp at hs; subst hs; left; rfl)

/-- a call that has returned is `Done` -/
def Done (s : State) (w : Nat) : Prop := ∃ th, s.thr[w]? = some th ∧ th.prog = []

theorem step_done (s s' : State) (u w : Nat) (hs : step s u = some s') (hd : Done s w) : Done s' w ∧ u ≠ w := by
  obtain ⟨tw, htw, hpw⟩ := hd
  have hne : u ≠ w := by
    intro huw; subst huw
    unfold step at hs
    rw [htw] at hs
    simp [hpw] at hs
  refine ⟨?_, hne⟩
  have key : ∀ th', (s.thr.set u th')[w]? = some tw := by
    intro th'; rw [List.getElem?_set_ne hne]; exact htw
  unfold step at hs
  split at hs
  · simp at hs
  · rename_i th hth
    split at hs
    · simp at hs
    · split at hs
      · simp at hs; subst hs; exact ⟨tw, key _, hpw⟩
      · simp at hs
    · simp at hs; subst hs; exact ⟨tw, key _, hpw⟩
    · split at hs <;> (simp at hs; subst hs; exact ⟨tw, key _, hpw⟩)
    · split at hs <;> (simp at hs; subst hs; exact ⟨tw, key _, hpw⟩)
    · simp at hs; subst hs; exact ⟨tw, key _, hpw⟩
    · split at hs
      · simp at hs; subst hs; exact ⟨tw, key _, hpw⟩
      · simp at hs
    · split at hs
      · simp at hs
      · split at hs <;> (simp at hs; subst hs; exact ⟨tw, key _, hpw⟩)

/-- after call `w` returned, whatever runs appends only frames of other calls, numbered from the
current count upward -/
theorem run_after_done (w : Nat) : ∀ (sched : List Nat) (s : State), Inv s → Done s w →
    ∃ ext, (runSched s sched).enc = s.enc ++ ext ∧ ∀ g ∈ ext, g.owner ≠ w ∧ s.enc.length ≤ g.seq := by
  intro sched
  induction sched with
  | nil => intro s _ _; exact ⟨[], by simp [runSched], by simp⟩
  | cons t ts ih =>
    intro s hinv hd
    simp only [runSched]
    split
    · rename_i s1 hs
      have hinv1 := step_inv s s1 t hinv hs
      obtain ⟨hd1, hne⟩ := step_done s s1 t w hs hd
      obtain ⟨ext, he, hall⟩ := ih s1 hinv1 hd1
      rcases c13_section_exclusive s s1 t hinv hs with hsame | ⟨_, f, hf, hown, hseq⟩
      · rw [hsame] at he hall; exact ⟨ext, he, hall⟩
      · refine ⟨f :: ext, by rw [he, hf]; simp, ?_⟩
        intro g hg
        rcases List.mem_cons.1 hg with rfl | hg
        · exact ⟨by rw [hown]; exact hne, by omega⟩
        · have := hall g hg
          rw [hf] at this
          exact ⟨this.1, by have := this.2; simp at this; omega⟩
    · exact ih s hinv hd

/-- **C13 (order).** Let call `w` have returned (after any run of any calls), and let another call
`c` — in particular `Close` — be made only then.  Whatever happens afterwards, every frame of `w` is
numbered below every frame of `c`: a close is numbered after every frame of the writes that
completed before it.  (Together with `c13_gapfree` — log order = number order — and
`c13_section_exclusive` — a call's frames are appended in program order while it holds the mutex —
this is the "data in the order the writes were accepted" clause.) -/
theorem c13_order (calls : List Call) (sched1 sched2 : List Nat) (w : Nat) (c : Call) :
    let s1 := runSched (init (calls.map Call.prog)) sched1
    Done s1 w →
    let s2 := runSched (spawn s1 c.prog) sched2
    ∀ f ∈ s2.enc, ∀ g ∈ s2.enc, f.owner = w → g.owner = s1.thr.length → f.seq < g.seq := by
  intro s1 hd s2 f hf g hg hfw hgc
  have hinv1 : Inv s1 := run_inv sched1 _ (calls_inv calls)
  have hinvS : Inv (spawn s1 c.prog) := spawn_inv s1 _ hinv1 (call_wf c)
  have hdS : Done (spawn s1 c.prog) w := by
    obtain ⟨tw, htw, hpw⟩ := hd
    have hlt : w < s1.thr.length := (List.getElem?_eq_some_iff.1 htw).1
    exact ⟨tw, by simp only [spawn]; rw [List.getElem?_append_left hlt]; exact htw, hpw⟩
  obtain ⟨ext, he, hall⟩ := run_after_done w sched2 _ hinvS hdS
  have he' : s2.enc = s1.enc ++ ext := he
  have hall' : ∀ g ∈ ext, g.owner ≠ w ∧ s1.enc.length ≤ g.seq := hall
  rw [he'] at hf hg
  have hf1 : f ∈ s1.enc := by
    rcases List.mem_append.1 hf with h | h
    · exact h
    · exact absurd hfw (hall' f h).1
  have hg2 : g ∈ ext := by
    rcases List.mem_append.1 hg with h | h
    · have := hinv1.owner g h; omega
    · exact h
  have hfs : f.seq < s1.enc.length := by
    have : f.seq ∈ s1.enc.map (·.seq) := List.mem_map.2 ⟨f, hf1, rfl⟩
    rw [hinv1.gapfree] at this
    simpa using this
  have := (hall' g hg2).2
  omega


/-! ### per-call order -/

/-- the payload chunks a call hands to the encoder, in call order -/
def callPls : Call → List Nat
  | .write fs => fs.map (·.1)
  | .readFrom cs => cs.map (·.1)
  | .close pl _ => [pl]

theorem plsOf_append (a b : List Instr) : plsOf (a ++ b) = plsOf a ++ plsOf b := by
  induction a with
  | nil => simp [plsOf]
  | cons i a ih => cases i <;> simp [plsOf, ih]

theorem plsOf_prog (c : Call) : plsOf c.prog = callPls c := by
  unfold Call.prog
  rw [gen_shape]
  cases c with
  | write fs =>
    simp only [Call.progW, sect, if_true, callPls]
    simp only [plsOf, List.cons_append, plsOf_append, List.append_nil]
    induction fs with
    | nil => simp [plsOf]
    | cons x xs ih =>
      simp [List.flatMap_cons, plsOf_append, frameI, plsOf] at ih ⊢
      exact ih
  | readFrom cs =>
    simp only [Call.progW, callPls]
    induction cs with
    | nil => simp [plsOf]
    | cons x xs ih =>
      simp [List.flatMap_cons, plsOf_append, frameI, sect, plsOf] at ih ⊢
      exact ih
  | close pl r => simp [Call.progW, sect, frameI, plsOf, callPls]

/-- **C13 (order, per call).** In log order — which by `c13_gapfree` is number order — the payloads
logged for call `t` are a prefix of the chunks that call was given, in the order it was given them:
a call's bytes are never reordered, duplicated or mixed with foreign data; only a tail can be missing
(the call was refused, or returned early on a failed send).  With `c13_section_exclusive` (a `Write`
holds the mutex across all its frames) the data frames in number order are whole accepted writes,
each in its own order. -/
theorem c13_call_order (calls : List Call) (sched : List Nat) (t : Nat) (c : Call) (hc : calls[t]? = some c) :
    let s := runSched (init (calls.map Call.prog)) sched
    (s.enc.filter (fun f => decide (f.owner = t))).map (·.pl) <+: callPls c := by
  intro s
  have hq := run_Q (calls.map Call.prog) sched _ (calls_inv calls) (init_Q _)
  have hinv := run_inv sched _ (calls_inv calls)
  -- thread t still exists in the final state
  have hlen : ∀ (sched : List Nat) (s0 : State), (runSched s0 sched).thr.length = s0.thr.length := by
    intro sched
    induction sched with
    | nil => intro s0; rfl
    | cons u us ih =>
      intro s0
      simp only [runSched]
      split
      · rename_i s1 hs1
        rw [ih s1]
        unfold step at hs1
        split at hs1
        · simp at hs1
        · split at hs1
          · simp at hs1
          · split at hs1 <;> simp at hs1 <;> subst hs1 <;> simp
          · simp at hs1; subst hs1; simp
          · split at hs1 <;> simp at hs1 <;> subst hs1 <;> simp [abort]
          · split at hs1 <;> simp at hs1 <;> subst hs1 <;> simp [abort]
          · simp at hs1; subst hs1; simp
          · split at hs1
            · simp at hs1; subst hs1; simp
            · simp at hs1
          · split at hs1
            · simp at hs1
            · split at hs1 <;> simp at hs1 <;> subst hs1 <;> simp [abort]
      · exact ih s0
  have ht : t < calls.length := (List.getElem?_eq_some_iff.1 hc).1
  have hthr : t < s.thr.length := by
    show t < (runSched (init (calls.map Call.prog)) sched).thr.length
    rw [hlen]; simp [init]; exact ht
  have hget : s.thr[t]? = some s.thr[t] := List.getElem?_eq_getElem hthr
  have hp0 : (calls.map Call.prog)[t]? = some c.prog := by simp [List.getElem?_map, hc]
  have := hq t s.thr[t] c.prog hget hp0
  rw [plsOf_prog] at this
  rw [List.append_assoc] at this
  exact (List.prefix_append _ _).trans this

/-! ### nonces -/

/-- id of the `k`-th stream opened by `OpenStream` (`k = 0,1,…`): `atomic.AddUint32(&next, 1) - 1`,
32-bit wrap made explicit -/
def streamId (k : Nat) : Nat := (Gen.Sender.nextStreamIDInit.toNat + k) % 2^32

/-- the two header fields the cipher nonce is made of -/
def nonce (id : Nat) (f : Frame) : Nat × Nat := (id, f.seq % 2^64)

theorem log_get (l : List Frame) (h : l.map (·.seq) = List.range l.length) (i : Nat) (f : Frame)
    (hf : l[i]? = some f) : f.seq = i ∧ i < l.length := by
  have hlt : i < l.length := (List.getElem?_eq_some_iff.1 hf).1
  have h1 : (l.map (·.seq))[i]? = some f.seq := by simp [List.getElem?_map, hf]
  rw [h] at h1
  simp [List.getElem?_range, hlt] at h1
  exact ⟨by omega, hlt⟩

/-- **C13 (nonce uniqueness).** One endpoint, one session key: `logs[k]` is the log of the `k`-th
opened stream (each gap-free by `c13_gapfree`).  While fewer than `2^32 − 2` streams have been
opened and at most `2^64` frames encoded per stream, two frames with the same `(stream id, seq)`
header fields are the same frame of the same stream, and none collides with the pair reserved for
the session-closing notice `(0xffffffff, 0)` (which `Session.Close` emits at most once, after its
CAS — `gen_structure`). -/
theorem c13_nonce_unique (logs : List (List Frame))
    (hgap : ∀ l ∈ logs, l.map (·.seq) = List.range l.length)
    (hstreams : logs.length + 2 ≤ 2^32) (hframes : ∀ l ∈ logs, l.length ≤ 2^64)
    (k1 k2 i1 i2 : Nat) (l1 l2 : List Frame) (f1 f2 : Frame)
    (h1 : logs[k1]? = some l1) (h2 : logs[k2]? = some l2) (g1 : l1[i1]? = some f1) (g2 : l2[i2]? = some f2) :
    (nonce (streamId k1) f1 = nonce (streamId k2) f2 → k1 = k2 ∧ i1 = i2) ∧
    nonce (streamId k1) f1 ≠ (Gen.Sender.sessCloseStreamID.toNat, Gen.Sender.sessCloseSeq.toNat) := by
  have hk1 : k1 < logs.length := (List.getElem?_eq_some_iff.1 h1).1
  have hk2 : k2 < logs.length := (List.getElem?_eq_some_iff.1 h2).1
  have m1 : l1 ∈ logs := List.mem_of_getElem? h1
  have m2 : l2 ∈ logs := List.mem_of_getElem? h2
  obtain ⟨s1, b1⟩ := log_get l1 (hgap l1 m1) i1 f1 g1
  obtain ⟨s2, b2⟩ := log_get l2 (hgap l2 m2) i2 f2 g2
  have c1 := hframes l1 m1
  have c2 := hframes l2 m2
  obtain ⟨e1, e2, e3⟩ := gen_ids
  simp only [nonce, streamId, e1, e2, e3, Prod.mk.injEq]
  have p32 : (2:Nat)^32 = 4294967296 := by decide
  have p64 : (2:Nat)^64 = 18446744073709551616 := by decide
  have t1 : (1:Int).toNat = 1 := rfl
  have t2 : ((2:Int)^32 - 1).toNat = 4294967295 := by decide
  have t3 : (0:Int).toNat = 0 := rfl
  rw [t1, t2, t3, s1, s2]
  rw [p32] at hstreams ⊢
  rw [p64] at c1 c2 ⊢
  constructor
  · intro h
    omega
  · intro h
    simp only [Prod.mk.injEq] at h
    omega


/-- **C13 (nonce uniqueness, streams numbered by the peer).** The endpoint that ACCEPTS streams sends on ids the peer
chose: `streams` lists (id, log of the frames sent on it), the ids pairwise distinct — the stream table creates a stream
only for an id it has never seen and keeps closed ids as tombstones (`Gen.Datagram.recvDemuxByStreamID`, C12's
`recvTombstoneDrops`), and a refused stream's single closing frame `(id, 0)` is such a log of length one. Two frames with
the same `(stream id, seq)` are the same frame of the same stream; and none collides with the pair reserved for the
session-closing notice as long as no stream is numbered `0xffffffff` (the peer's choice: an honest client numbers
1, 2, …, `c13_nonce_unique`). -/
theorem c13_nonce_unique_peer_ids (streams : List (Nat × List Frame))
    (hids : (streams.map (·.1)).Nodup)
    (hgap : ∀ p ∈ streams, p.2.map (·.seq) = List.range p.2.length) (hframes : ∀ p ∈ streams, p.2.length ≤ 2^64)
    (k1 k2 i1 i2 : Nat) (p1 p2 : Nat × List Frame) (f1 f2 : Frame)
    (h1 : streams[k1]? = some p1) (h2 : streams[k2]? = some p2) (g1 : p1.2[i1]? = some f1) (g2 : p2.2[i2]? = some f2) :
    (nonce p1.1 f1 = nonce p2.1 f2 → k1 = k2 ∧ i1 = i2) ∧
    (p1.1 ≠ Gen.Sender.sessCloseStreamID.toNat → nonce p1.1 f1 ≠ (Gen.Sender.sessCloseStreamID.toNat, Gen.Sender.sessCloseSeq.toNat)) := by
  have m1 : p1 ∈ streams := List.mem_of_getElem? h1
  have m2 : p2 ∈ streams := List.mem_of_getElem? h2
  obtain ⟨s1, b1⟩ := log_get p1.2 (hgap p1 m1) i1 f1 g1
  obtain ⟨s2, b2⟩ := log_get p2.2 (hgap p2 m2) i2 f2 g2
  have c1 := hframes p1 m1
  have c2 := hframes p2 m2
  have p64 : (2:Nat)^64 = 18446744073709551616 := by decide
  rw [p64] at c1 c2
  constructor
  · intro h
    simp only [nonce, Prod.mk.injEq, p64] at h
    obtain ⟨hid, hseq⟩ := h
    have hk : k1 = k2 := by
      have e1 : (streams.map (·.1))[k1]? = some p1.1 := by simp [List.getElem?_map, h1]
      have e2 : (streams.map (·.1))[k2]? = some p2.1 := by simp [List.getElem?_map, h2]
      rw [hid] at e1
      exact (List.getElem?_inj (by
        have := (List.getElem?_eq_some_iff.1 e1).1
        exact this) hids).1 (e1.trans e2.symm)
    refine ⟨hk, ?_⟩
    omega
  · intro hne h
    simp only [nonce, Prod.mk.injEq] at h
    exact hne h.1

/-- non-vacuity of `c13_nonce_unique_peer_ids`: the accepting endpoint with streams 7 (two frames sent) and 5000 (refused: one frame) -/
example : ([7, 5000] : List Nat).Nodup ∧ ([⟨0, false, 0, 0⟩, ⟨1, false, 1, 0⟩] : List Frame).map (·.seq) = List.range 2 := by decide

/-! ### the closing notice is the last frame of the stream

(C13: "a close puts a closing frame on the wire numbered after every frame of the writes that completed before it";
C03: "once a side has closed the stream … its writes fail".)  Needs `Gen.Sender.readFromChkUnderLock`: every
critical section that can number a frame starts with the closed-test. -/

theorem body_ok (fs : List (Nat × Res)) (q : List Instr) :
    gOK (fs.flatMap (fun x => frameI true false x.1 x.2) ++ q) = gOK q ∧
    casTailOK (fs.flatMap (fun x => frameI true false x.1 x.2) ++ q) = casTailOK q ∧
    casGuardOK (fs.flatMap (fun x => frameI true false x.1 x.2) ++ q) = casGuardOK q := by
  induction fs with
  | nil => simp
  | cons x xs ih => simpa [frameI, gOK, casTailOK, casGuardOK] using ih

theorem chunks_ok (cs : List (Nat × Res)) :
    gOK (cs.flatMap (fun x => sect true (Instr.chk :: frameI true false x.1 x.2))) = true ∧
    casTailOK (cs.flatMap (fun x => sect true (Instr.chk :: frameI true false x.1 x.2))) = true ∧
    casGuardOK (cs.flatMap (fun x => sect true (Instr.chk :: frameI true false x.1 x.2))) = true := by
  induction cs with
  | nil => simp [gOK, casTailOK, casGuardOK]
  | cons x xs ih => simpa [sect, frameI, gOK, casTailOK, casGuardOK] using ih

/-- **the tie**: with the extracted shape (closed-test inside every sending section) every call's program has the
three structural properties the invariant `CI` needs -/
theorem call_guarded (c : Call) : gOK c.prog = true ∧ casTailOK c.prog = true ∧ casGuardOK c.prog = true := by
  unfold Call.prog
  rw [gen_shape]
  cases c with
  | write fs =>
    have h := body_ok fs [Instr.unlock]
    simp only [Call.progW, sect, if_true, List.cons_append]
    simp [gOK, casTailOK, casGuardOK, h.1, h.2.1, h.2.2]
  | readFrom cs =>
    simp only [Call.progW, if_true]
    exact chunks_ok cs
  | close pl r => simp [Call.progW, sect, frameI, gOK, casTailOK, casGuardOK]

theorem calls_ci (calls : List Call) : CI (init (calls.map Call.prog)) := by
  apply init_ci
  intro p hp
  simp only [List.mem_map] at hp
  obtain ⟨c, _, rfl⟩ := hp
  exact call_guarded c

/-- **C13/C03 (the closing notice is last).** Any number of concurrent `Write`, `ReadFrom` and `Close` calls on one
stream, any outcome of every send, any schedule: a frame that carries the closing flag is the LAST frame the stream
ever numbers, and the last one it hands to a connection — nothing follows the closing notice on the wire, so a chunk
a `ReadFrom` had taken before the close is either numbered before the notice or refused.  (False for the tree before
/repo 6ee9036: `c13_chk_outside_witness`.) -/
theorem c13_close_last (calls : List Call) (sched : List Nat) :
    let s := runSched (init (calls.map Call.prog)) sched
    (∀ (pre : List Frame) (f : Frame) (post : List Frame), s.enc = pre ++ f :: post → f.closing = true → post = []) ∧
    (∀ (pre : List Frame) (f : Frame) (post : List Frame), s.wire = pre ++ f :: post → f.closing = true → post = []) := by
  intro s
  have hi := run_inv sched _ (calls_inv calls)
  have hc := run_ci sched _ (calls_inv calls) (calls_ci calls)
  exact ⟨hc.last, last_of_sublist hi.wire hc.last⟩

/-- consequence: at most one frame carries the closing flag — data frames never do -/
theorem c13_one_closing (calls : List Call) (sched : List Nat) :
    let s := runSched (init (calls.map Call.prog)) sched
    (s.enc.filter (·.closing)).length ≤ 1 := by
  intro s
  have h := (c13_close_last calls sched).1
  have : ∀ l : List Frame, (∀ (pre : List Frame) (f : Frame) (post : List Frame), l = pre ++ f :: post → f.closing = true → post = []) →
      (l.filter (·.closing)).length ≤ 1 := by
    intro l
    induction l with
    | nil => intro _; simp
    | cons x xs ih =>
      intro hl
      by_cases hx : x.closing = true
      · have := hl [] x xs rfl hx
        subst this; simp [hx]
      · have hx' : x.closing = false := by simpa using hx
        simp only [List.filter_cons, hx']
        apply ih
        intro pre f post he hf
        exact hl (x :: pre) f post (by rw [he]; rfl) hf
  exact this _ h

/-! ### non-vacuity and the mutant's witness -/

/-- a two-frame `Write`, a `Close` and a `ReadFrom` on one stream: the model really consumes 0,1,2, the closing
frame gets number 2, and the `ReadFrom` that arrives afterwards is refused (its closed-test is in its section) -/
example :
    let calls := [Call.write [(10, .ok), (11, .ok)], Call.close 99 .ok, Call.readFrom [(12, .ok)]]
    let s := runSched (init (calls.map Call.prog)) [0, 0, 0, 0, 0, 0, 0, 0, 0, 1, 1, 1, 1, 1, 1, 2, 2, 2]
    s.enc.map (fun f => (f.seq, f.closing, f.pl)) = [(0, false, 10), (1, false, 11), (2, true, 99)] ∧
    s.closed = true ∧ s.lock = none := by decide

/-- **the pinned witness of the defect repaired by /repo 6ee9036** (`Gen.Sender.readFromChkUnderLock = false`
there): with `ReadFrom`'s closed-test OUTSIDE its critical section, a `ReadFrom` that passed the test while a
`Write` held the mutex is numbered AFTER the closing frame and even carries the closing flag — frame
`(3, closing, 12)` follows `(2, closing, 99)`; the peer drops it.  The harness replays this schedule on the real
code (`c03race.go`). -/
theorem c13_chk_outside_witness :
    let sh : Shape := ⟨true, true, true, true, false⟩
    let calls := [Call.write [(10, .ok), (11, .ok)], Call.close 99 .ok, Call.readFrom [(12, .ok)]]
    let s := runSched (init (calls.map (Call.progW sh))) [2, 0, 0, 0, 0, 0, 1, 0, 0, 0, 0, 1, 1, 1, 1, 1, 1, 2, 2, 2, 2, 2]
    s.enc.map (fun f => (f.seq, f.closing, f.pl)) = [(0, false, 10), (1, false, 11), (2, true, 99), (3, true, 12)] ∧
    s.closed = true := by decide

/-- a failed send consumes its number: the next frame skips it (connection error on frame 1) -/
example :
    let calls := [Call.write [(10, .ok), (11, .connErr), (12, .ok)], Call.write [(20, .ok)]]
    let s := runSched (init (calls.map Call.prog)) [0, 0, 0, 0, 0, 0, 0, 0, 0, 0, 1, 1, 1]
    s.enc.map (·.seq) = [0, 1] ∧ s.wire.map (·.seq) = [0] ∧ s.seq = 2 ∧ s.closed = true := by decide

/-- **the mutant's witness (spike S7).** If `ReadFrom` sent without `writingM` (shape
`lockReadFrom = false`), a `ReadFrom` chunk and a `Write` can both read `Seq = 0`: two different
frames with the same number reach the wire.  The harness replays this race on the wire tap. -/
theorem c13_unlocked_witness :
    let sh : Shape := ⟨true, false, true, true, false⟩
    let progs := [Call.progW sh (.readFrom [(7, .ok)]), Call.progW sh (.write [(8, .ok)])]
    let s := runSched (init progs) [0, 1, 1, 0, 1, 0, 1, 0, 1, 1]
    s.wire.map (fun f => (f.seq, f.pl)) = [(0, 7), (0, 8)] := by decide

end C13

#print axioms C13.c13_gapfree
#print axioms C13.c13_order
#print axioms C13.c13_call_order
#print axioms C13.c13_nonce_unique
#print axioms C13.c13_unlocked_witness
#print axioms C13.c13_close_last
#print axioms C13.c13_one_closing
#print axioms C13.c13_chk_outside_witness
