import CloakModel.Model.Stream
import CloakModel.Lemmas.StreamCore

/-! # C03 — Closing a stream delivers everything written before it, then end-of-stream

Sender side X: writes `ds` then `Close` produce frames `0..k-1` (data, the chunks of `ds` in order)
and `k` (closing) — `sender_spec`.  Receiver side Y: those frames arrive in ANY order (whatever
connections they travelled on), each at most once, with reads of any sizes, local writes and — for
the simultaneous-close clause — a local `Close` interleaved anywhere.  Built on the C02 invariant
(`Lemmas/ReorderCore.lean`) through the simulation of `Props/C02.lean`; the receive buffer is the
same executable model `RB` the C02 check ties to `streamBuffer.go`. -/
set_option linter.unusedVariables false
set_option linter.unusedSimpArgs false

namespace C03
open ST
open RB (Frame W)

/-! ## 1. Extracted facts -/

/-- structural facts of `closeStream`, `Stream.Read/Write/recvFrame`, `recvDataFromRemote` and the
byte pipe that the model's shape relies on (the facts the model *computes with* are in `ST.gen_flags`
and `ST.gen_pipe_eof`) -/
theorem gen_structure :
    Gen.StreamClose.casFirst = true ∧ Gen.StreamClose.activeSendsClosing = true ∧
    Gen.StreamClose.activeErrSkipsTombstone = true ∧
    Gen.StreamClose.passiveArg = true ∧ Gen.StreamClose.activeArg = true ∧
    Gen.StreamClose.isClosedReadsFlag = true ∧ Gen.StreamClose.recvClosesOnFlag = true ∧
    Gen.StreamClose.recvDropsTombstoned = true ∧
    Gen.StreamClose.pipeEOFFirst = true ∧ Gen.StreamClose.pipeDataBeforeWait = true ∧
    Gen.StreamClose.pipeCloseSetsAndBroadcasts = true ∧ Gen.StreamClose.pipeWriteRefusesClosed = true ∧
    Gen.StreamClose.sbCloseClosesPipe = true ∧ Gen.StreamClose.sbReadIsPipeRead = true := by decide

/-! ## 2. What a read can return -/

theorem read_out (s : Side) (k : Nat) (hk : k ≠ 0) :
    (ST.read s k).2 = (match (RB.read s.rb k).2 with
      | .data b => RdOut.data b | .eof => RdOut.broken | .block => RdOut.block) := by
  unfold ST.read
  rw [if_neg hk, pipeRead_eq]
  rcases h : RB.read s.rb k with ⟨rb', o⟩
  cases o <;> simp [gen_flags.2.2.1]

/-- **C03 (reads are enabled; partial for wake-ups).** A read with a non-empty target parks only if
the pipe is open and empty: once the stream is closed (either way) or data is buffered, `Read`
returns.  That `Cond.Broadcast` really wakes a goroutine parked earlier is not expressible in this
model — it is checked on the real code under `testing/synctest` by the harness. -/
theorem c03_read_enabled (s : Side) (k : Nat) (hk : k ≠ 0) (h : s.rb.closed = true ∨ s.rb.buf ≠ []) :
    (ST.read s k).2 ≠ .block := by
  rw [read_out s k hk]
  unfold RB.read
  rcases h with h | h
  · by_cases hb : s.rb.buf = [] <;> simp [h, hb]
  · simp [h]

theorem read_broken_iff (s : Side) (k : Nat) (hk : k ≠ 0) :
    (ST.read s k).2 = .broken ↔ (s.rb.closed = true ∧ s.rb.buf = []) := by
  rw [read_out s k hk]
  unfold RB.read
  by_cases hc : s.rb.closed = true <;> by_cases hb : s.rb.buf = [] <;> simp [hc, hb]

/-- a closed stream refuses writes -/
theorem write_refused (mtu : Nat) (s : Side) (d : Bytes) (h : s.closed = true) :
    (write mtu s d) = (s, .refused) := by
  simp [write, gen_flags.2.1, h]

/-! ## 3. The receiving side -/

section
variable (pl : Nat → Bytes) (c : Nat)

/-- **C03 (close after data).** X's frames are `fr i` for `i ≤ c` with `fr c` the closing frame, so
`B = prefixData pl c` are the bytes X wrote before `Close`.  Y starts fresh; its operations `ops` are
deliveries of those frames in any order (each at most once), reads of any sizes and local writes —
no local `Close`.  Then, whatever the order and the interleaving:
1. everything read so far followed by everything buffered is a prefix of `B` (in order, nothing
   foreign, nothing twice);
2. a read that returns the broken-stream error does so only when exactly `B` has been read — never
   an early end, never a lost tail;
3. once Y is closed (it processed X's closing frame), all of `B` is read-or-buffered, no read parks,
   and Y's writes fail;
4. once every frame has been delivered, Y is closed. -/
theorem c03_close_after_data (hc : c + 1 < W) (mtu : Nat) (ops : List Op)
    (hnoclose : ops.any Op.isClose = false)
    (hfr : ∀ f ∈ recvs ops, f = RC.fr pl c f.seq ∧ f.seq ≤ c)
    (hnd : ((recvs ops).map (·.seq)).Nodup) :
    let y := run mtu ops
    let B := RC.prefixData pl c
    (y.rb.out ++ y.rb.buf <+: B) ∧
    (∀ k, k ≠ 0 → (ST.read y k).2 = .broken → y.rb.out = B) ∧
    (y.closed = true → y.rb.out ++ y.rb.buf = B ∧ (∀ k, k ≠ 0 → (ST.read y k).2 ≠ .block) ∧
        ∀ d, (write mtu y d).2 = .refused) ∧
    (((recvs ops).map (·.seq)).Perm (List.range (c + 1)) → y.closed = true) := by
  have hJ := run_J pl c hc mtu ops [] false init (init_J pl c) (by simp)
    (by intro f hf; exact ⟨(hfr f hf).1, (hfr f hf).2, by simp⟩) hnd
  rw [hnoclose] at hJ
  simp only [Bool.or_false, List.append_nil] at hJ
  show (run mtu ops).rb.out ++ (run mtu ops).rb.buf <+: RC.prefixData pl c ∧ _
  have hrun : run mtu ops = ops.foldl (step mtu) init := rfl
  rw [hrun]
  generalize ops.foldl (step mtu) init = y at hJ
  refine ⟨?_, ?_, ?_, ?_⟩
  · cases hcl : y.closed with
    | false =>
      obtain ⟨_, _, hinv⟩ := hJ.opn hcl
      have hd := hinv.data
      simp only [C02.core] at hd
      rw [hd]
      apply prefixData_prefix
      have hb := hinv.bound
      rcases Nat.lt_or_ge (C02.core y.rb).next (c + 1) with h | h
      · exact Nat.le_of_lt_succ h
      · exact absurd rfl (hinv.below c (by omega)).2
    | true =>
      obtain ⟨_, _, m, hm, hd, hmc⟩ := hJ.cls hcl
      rw [hd, hmc rfl]; exact List.prefix_refl _
  · intro k hk hb
    obtain ⟨hclosed, hbuf⟩ := (read_broken_iff y k hk).1 hb
    cases hcl : y.closed with
    | false => have := (hJ.opn hcl).2.1; rw [hclosed] at this; cases this
    | true =>
      obtain ⟨_, _, m, hm, hd, hmc⟩ := hJ.cls hcl
      rw [hbuf, List.append_nil, hmc rfl] at hd
      exact hd
  · intro hcl
    obtain ⟨_, hrc, m, hm, hd, hmc⟩ := hJ.cls hcl
    refine ⟨by rw [hd, hmc rfl], ?_, ?_⟩
    · intro k hk; exact c03_read_enabled y k hk (Or.inl hrc)
    · intro d; rw [write_refused mtu y d hcl]
  · intro hperm
    cases hcl : y.closed with
    | true => rfl
    | false =>
      obtain ⟨_, _, hinv⟩ := hJ.opn hcl
      have hna := hinv.next_na
      have hb := hinv.bound
      exfalso; apply hna
      rw [List.mem_reverse, hperm.mem_iff]
      simp only [List.mem_range]
      rcases Nat.lt_or_ge (C02.core y.rb).next (c + 1) with h | h
      · exact h
      · exact absurd rfl (hinv.below c (by omega)).2

/-- **C03 (simultaneous close).** As above, but Y may also `Close` locally at any point (both sides
closing).  Y still reads only a prefix of X's bytes, in order; and once Y is closed — by its own
`Close` or by X's closing frame, whichever is processed first — what it has read plus what it has
buffered is some whole-frame prefix `prefixData pl m`, `m ≤ c`, no read parks (buffered bytes, then
the error), its writes fail; frames arriving afterwards are dropped (tombstone). -/
theorem c03_simultaneous (hc : c + 1 < W) (mtu : Nat) (ops : List Op)
    (hfr : ∀ f ∈ recvs ops, f = RC.fr pl c f.seq ∧ f.seq ≤ c)
    (hnd : ((recvs ops).map (·.seq)).Nodup) :
    let y := run mtu ops
    (y.rb.out ++ y.rb.buf <+: RC.prefixData pl c) ∧
    (y.closed = true → (∃ m, m ≤ c ∧ y.rb.out ++ y.rb.buf = RC.prefixData pl m) ∧ y.tomb = true ∧
        (∀ k, k ≠ 0 → (ST.read y k).2 ≠ .block) ∧ (∀ d, (write mtu y d).2 = .refused) ∧
        (∀ f, (recv y f) = (y, .dropped))) ∧
    (∀ k, k ≠ 0 → (ST.read y k).2 = .broken → y.closed = true ∧ y.rb.buf = []) := by
  have hJ := run_J pl c hc mtu ops [] false init (init_J pl c) (by simp)
    (by intro f hf; exact ⟨(hfr f hf).1, (hfr f hf).2, by simp⟩) hnd
  simp only [List.append_nil] at hJ
  show (run mtu ops).rb.out ++ (run mtu ops).rb.buf <+: RC.prefixData pl c ∧ _
  have hrun : run mtu ops = ops.foldl (step mtu) init := rfl
  rw [hrun]
  generalize ops.foldl (step mtu) init = y at hJ
  refine ⟨?_, ?_, ?_⟩
  · cases hcl : y.closed with
    | false =>
      obtain ⟨_, _, hinv⟩ := hJ.opn hcl
      have hd := hinv.data
      simp only [C02.core] at hd
      rw [hd]
      apply prefixData_prefix
      have hb := hinv.bound
      rcases Nat.lt_or_ge (C02.core y.rb).next (c + 1) with h | h
      · exact Nat.le_of_lt_succ h
      · exact absurd rfl (hinv.below c (by omega)).2
    | true =>
      obtain ⟨_, _, m, hm, hd, _⟩ := hJ.cls hcl
      rw [hd]; exact prefixData_prefix pl m c hm
  · intro hcl
    obtain ⟨htomb, hrc, m, hm, hd, _⟩ := hJ.cls hcl
    refine ⟨⟨m, hm, hd⟩, htomb, ?_, ?_, ?_⟩
    · intro k hk; exact c03_read_enabled y k hk (Or.inl hrc)
    · intro d; rw [write_refused mtu y d hcl]
    · intro f; simp [recv, htomb]
  · intro k hk hb
    obtain ⟨hclosed, hbuf⟩ := (read_broken_iff y k hk).1 hb
    cases hcl : y.closed with
    | false => have := (hJ.opn hcl).2.1; rw [hclosed] at this; cases this
    | true => exact ⟨rfl, hbuf⟩

end

/-- **C03 (a local close keeps the buffer).** Any side that closes locally keeps the bytes already in
its pipe: right after `Close` the buffer is unchanged, and through every later sequence of operations
(frames of any kind arriving, reads, writes, another `Close`) the bytes read plus the bytes buffered
stay the same — so reads return exactly the buffered bytes and then the error, never parking — while
every later write fails. -/
theorem c03_local_close_keeps_buffer (mtu : Nat) (s : Side) (pad : Bytes) (hopen : s.closed = false) (ops : List Op) :
    let s' := (close s pad).1
    s'.rb.buf = s.rb.buf ∧ s'.rb.out = s.rb.out ∧
    (let z := ops.foldl (step mtu) s'
     z.closed = true ∧ z.rb.out ++ z.rb.buf = s.rb.out ++ s.rb.buf ∧
     (∀ k, k ≠ 0 → (ST.read z k).2 ≠ .block) ∧ (∀ d, (write mtu z d).2 = .refused)) := by
  have hs' : (close s pad).1 = { closed := true, wseq := (s.wseq + 1) % W, tomb := true, rb := RB.close s.rb } := by
    simp [close, hopen, closeRecv_eq, gen_flags.2.2.2]
  rw [hs']
  refine ⟨rfl, rfl, ?_⟩
  -- invariant of a locally closed side
  have key : ∀ (ops : List Op) (z : Side), z.closed = true → z.tomb = true → z.rb.closed = true →
      (ops.foldl (step mtu) z).closed = true ∧ (ops.foldl (step mtu) z).tomb = true ∧
      (ops.foldl (step mtu) z).rb.closed = true ∧
      (ops.foldl (step mtu) z).rb.out ++ (ops.foldl (step mtu) z).rb.buf = z.rb.out ++ z.rb.buf := by
    intro ops
    induction ops with
    | nil => intro z h1 h2 h3; exact ⟨h1, h2, h3, rfl⟩
    | cons op rest ih =>
      intro z h1 h2 h3
      simp only [List.foldl_cons]
      have hstep : (step mtu z op).closed = true ∧ (step mtu z op).tomb = true ∧ (step mtu z op).rb.closed = true ∧
          (step mtu z op).rb.out ++ (step mtu z op).rb.buf = z.rb.out ++ z.rb.buf := by
        cases op with
        | recv f => simp [step, recv, h2, h1, h3]
        | write d => simp [step, write_refused mtu z d h1, h1, h2, h3]
        | close p => simp [step, close, h1, h2, h3]
        | read k =>
          by_cases hk : k = 0
          · subst hk; simp [step, ST.read, h1, h2, h3]
          · simp only [step]
            rw [read_fst z k hk]
            obtain ⟨r1, r2, _⟩ := read_closed_pipe z.rb k h3
            exact ⟨h1, h2, r1, r2⟩
      obtain ⟨a, b, d, e⟩ := ih (step mtu z op) hstep.1 hstep.2.1 hstep.2.2.1
      exact ⟨a, b, d, by rw [e, hstep.2.2.2]⟩
  obtain ⟨a, b, d, e⟩ := key ops { closed := true, wseq := (s.wseq + 1) % W, tomb := true, rb := RB.close s.rb } rfl rfl rfl
  refine ⟨a, e, ?_, ?_⟩
  · intro k hk; exact c03_read_enabled _ k hk (Or.inl d)
  · intro dd; rw [write_refused mtu _ dd a]

/-! ## 4. The sending side: writes then Close give frames `0..k-1` data, `k` closing -/

theorem chunksF_flatten (mtu : Nat) : ∀ (fuel : Nat) (d : Bytes), d.length ≤ fuel → (chunksF mtu fuel d).flatten = d := by
  intro fuel
  induction fuel with
  | zero => intro d h; have : d = [] := List.length_eq_zero_iff.1 (by omega); subst this; simp [chunksF]
  | succ fuel ih =>
    intro d h
    unfold chunksF
    by_cases hd : d = []
    · simp [hd]
    · by_cases hm : mtu = 0 ∨ d.length ≤ mtu
      · simp [hd, hm]
      · simp only [hd, hm, if_false, List.flatten_cons]
        rw [ih (d.drop mtu) (by simp only [List.length_drop]; omega), List.take_append_drop]

theorem chunks_flatten (mtu : Nat) (d : Bytes) : (chunks mtu d).flatten = d :=
  chunksF_flatten mtu d.length d (Nat.le_refl _)

/-- payload of frame `i`: the `i`-th chunk, and the padding for the closing frame -/
def plOf (cs : List Bytes) (pad : Bytes) (i : Nat) : Bytes :=
  match cs[i]? with
  | some b => b
  | none => pad

theorem frames_spec : ∀ (cs : List Bytes) (seq : Nat), seq + cs.length < W →
    (frames seq cs).1 = (List.range cs.length).map (fun i => (⟨seq + i, false, plOf cs [] i⟩ : Frame)) ∧
    (frames seq cs).2 = seq + cs.length := by
  intro cs
  induction cs with
  | nil => intro seq _; simp [frames]
  | cons x xs ih =>
    intro seq h
    simp only [List.length_cons] at h
    have hmod : (seq + 1) % W = seq + 1 := Nat.mod_eq_of_lt (by omega)
    obtain ⟨i1, i2⟩ := ih (seq + 1) (by omega)
    simp only [frames, hmod, i1, i2, List.length_cons]
    refine ⟨?_, by omega⟩
    rw [List.range_succ_eq_map]
    simp only [List.map_cons, List.map_map]
    have hA : ({ seq := seq, closing := false, payload := x } : Frame) = ⟨seq + 0, false, plOf (x :: xs) [] 0⟩ := by
      simp [plOf]
    have hB : List.map (fun i => ({ seq := seq + 1 + i, closing := false, payload := plOf xs [] i } : Frame)) (List.range xs.length)
        = List.map ((fun i => ({ seq := seq + i, closing := false, payload := plOf (x :: xs) [] i } : Frame)) ∘ Nat.succ) (List.range xs.length) := by
      apply List.map_congr_left
      intro i _
      simp [plOf, Nat.add_assoc, Nat.add_comm 1 i]
    rw [hA, hB]

/-- all of `ds` written (the stream is open), then `Close` -/
def sendAll (mtu : Nat) : Side → List Bytes → Side × List Frame
  | s, [] => (s, [])
  | s, d :: ds =>
    match write mtu s d with
    | (s', .sent fs) => ((sendAll mtu s' ds).1, fs ++ (sendAll mtu s' ds).2)
    | (s', .refused) => (s', [])

def senderFrames (mtu : Nat) (ds : List Bytes) (pad : Bytes) : List Frame :=
  match close (sendAll mtu init ds).1 pad with
  | (_, .sent f) => (sendAll mtu init ds).2 ++ [f]
  | (_, .repeated) => (sendAll mtu init ds).2

theorem sendAll_spec (mtu : Nat) : ∀ (ds : List Bytes) (s : Side), s.closed = false →
    s.wseq + (ds.flatMap (chunks mtu)).length < W →
    (sendAll mtu s ds).2 = (frames s.wseq (ds.flatMap (chunks mtu))).1 ∧
    (sendAll mtu s ds).1.wseq = s.wseq + (ds.flatMap (chunks mtu)).length ∧
    (sendAll mtu s ds).1.closed = false := by
  intro ds
  induction ds with
  | nil => intro s h _; simp [sendAll, frames, h]
  | cons d ds ih =>
    intro s hcl hlen
    simp only [List.flatMap_cons, List.length_append] at hlen ⊢
    have hw : write mtu s d = ({ s with wseq := (frames s.wseq (chunks mtu d)).2 }, .sent (frames s.wseq (chunks mtu d)).1) := by
      simp [write, hcl]
    obtain ⟨f1, f2⟩ := frames_spec (chunks mtu d) s.wseq (by omega)
    simp only [sendAll, hw]
    obtain ⟨i1, i2, i3⟩ := ih { s with wseq := (frames s.wseq (chunks mtu d)).2 } hcl (by simp only [f2]; omega)
    simp only [f2] at i1 i2 i3 ⊢
    refine ⟨?_, by rw [i2]; omega, i3⟩
    rw [i1]
    -- frames of an append
    have happ : ∀ (a b : List Bytes) (q : Nat), q + a.length + b.length < W →
        (frames q (a ++ b)).1 = (frames q a).1 ++ (frames (q + a.length) b).1 := by
      intro a
      induction a with
      | nil => intro b q _; simp [frames]
      | cons x xs iha =>
        intro b q hq
        simp only [List.length_cons] at hq
        have hmod : (q + 1) % W = q + 1 := Nat.mod_eq_of_lt (by omega)
        simp only [List.cons_append, frames, hmod, List.length_cons]
        rw [iha b (q + 1) (by omega)]
        simp [Nat.add_assoc, Nat.add_comm 1 xs.length]
    rw [happ _ _ _ (by omega)]

/-- **C03 (sender).** Writing `ds` and closing, on a fresh stream, emits exactly the frames
`fr 0, …, fr k` of section 3 with `pl` = the chunks of `ds` in order (`k` of them) and `c = k`; and
`prefixData pl k` is `ds` concatenated.  So `B` in `c03_close_after_data` is "the bytes written
before the close". -/
theorem sender_spec (mtu : Nat) (ds : List Bytes) (pad : Bytes)
    (hk : (ds.flatMap (chunks mtu)).length + 1 < W) :
    let cs := ds.flatMap (chunks mtu)
    let k := cs.length
    senderFrames mtu ds pad = (List.range (k + 1)).map (RC.fr (plOf cs pad) k) ∧
    RC.prefixData (plOf cs pad) k = ds.flatten := by
  intro cs k
  obtain ⟨h1, h2, h3⟩ := sendAll_spec mtu ds init rfl (by show 0 + _ < W; omega)
  obtain ⟨f1, _⟩ := frames_spec cs 0 (by show 0 + (ds.flatMap (chunks mtu)).length < W; omega)
  have hinit : init.wseq = 0 := rfl
  rw [hinit] at h1 h2
  constructor
  · unfold senderFrames
    simp only [close, h3, Bool.false_eq_true, if_false, h1, h2]
    show (frames 0 cs).1 ++ _ = _
    rw [f1, List.range_succ, List.map_append]
    have hA : List.map (fun i => ({ seq := 0 + i, closing := false, payload := plOf cs [] i } : Frame)) (List.range cs.length)
        = List.map (RC.fr (plOf cs pad) k) (List.range k) := by
      apply List.map_congr_left
      intro i hi
      have hi' : i < cs.length := List.mem_range.1 hi
      have hne : i ≠ k := Nat.ne_of_lt hi'
      simp [RC.fr, plOf, hi', hne]
    have hB : [({ seq := 0 + (List.flatMap (chunks mtu) ds).length, closing := true, payload := pad } : Frame)]
        = List.map (RC.fr (plOf cs pad) k) [k] := by
      simp [RC.fr, plOf, k, cs]
    rw [hA, hB]
  · -- prefixData over the chunk list is its concatenation
    have hpd : ∀ (n : Nat), n ≤ cs.length → RC.prefixData (plOf cs pad) n = (cs.take n).flatten := by
      intro n
      induction n with
      | zero => intro _; simp [RC.prefixData]
      | succ n ih =>
        intro hn
        have hlt : n < cs.length := by omega
        simp only [RC.prefixData, ih (by omega)]
        rw [List.take_succ, List.flatten_append]
        simp [plOf, hlt, List.getElem?_eq_getElem hlt]
    rw [hpd k (Nat.le_refl _)]
    simp only [k, List.take_length]
    -- flatten of the per-write chunk lists
    have : ∀ (l : List Bytes), (l.flatMap (chunks mtu)).flatten = l.flatten := by
      intro l
      induction l with
      | nil => simp
      | cons x xs ih => simp [List.flatMap_cons, chunks_flatten, ih]
    exact this ds

/-! ## 5. Non-vacuity -/

/-- X writes `[1,2,3]` and `[4]` with a 2-byte frame limit, then closes: frames `[1,2] [3] [4]` and
closing frame 3.  They reach Y as closing, 2, 0, 1 (the closing notice overtakes all the data) with
reads in between: Y reads 1,2,3,4, then — and only then — the broken-stream error. -/
example :
    let fs := senderFrames 2 [[1, 2, 3], [4]] [9]
    fs.map (fun f => (f.seq, f.closing, f.payload)) = [(0, false, [1, 2]), (1, false, [3]), (2, false, [4]), (3, true, [9])] := by
  decide

example :
    let f0 : Frame := ⟨0, false, [1, 2]⟩
    let f1 : Frame := ⟨1, false, [3]⟩
    let f2 : Frame := ⟨2, false, [4]⟩
    let f3 : Frame := ⟨3, true, [9]⟩
    let y := run 2 [.recv f3, .read 5, .recv f2, .recv f0, .read 1, .recv f1, .read 10]
    y.closed = true ∧ y.rb.out = [1, 2, 3, 4] ∧ (ST.read y 4).2 = .broken ∧
    (ST.read (run 2 [.recv f3, .recv f2]) 4).2 = .block := by
  decide

end C03

#print axioms C03.c03_close_after_data
#print axioms C03.c03_simultaneous
#print axioms C03.c03_local_close_keeps_buffer
#print axioms C03.c03_read_enabled
#print axioms C03.sender_spec
