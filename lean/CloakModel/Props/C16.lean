import CloakModel.Lemmas.AcctCore

/-! # C16 — Usage is charged exactly once and exhausted or expired users are cut off

Model: `Model/Acct.lean` (atomic steps = the critical sections / atomic operations the extractor saw).
Conservation law per user and direction, with ghost variables:
`carried = (granted − stored) + inflight + queue + pending + valve + old + dropped`, every term ≥ 0. -/

namespace C16
open Acct

/-! ## 1. What the extracted facts say -/

/-- OBLIGATION: bytes read from a client connection are added to `rx` for EVERY read, bytes written are added to
`tx` after a successful write with the returned count; `rx` is collected as "up", `tx` as "down"; the queue keeps
them apart; `commitUpdate` reports them as UpUsage / DownUsage; `UploadStatus` deducts UpUsage from UpCredit and
DownUsage from DownCredit. -/
theorem gen_direction :
    Gen.Acct.addRxEveryRead = true ∧ Gen.Acct.addTxAfterWrite = true ∧ Gen.Acct.txWaitBeforeWrite = true ∧
    Gen.Acct.valveAdds = true ∧ Gen.Acct.nullifyIsSwapRxTx = true ∧ Gen.Acct.collectChain = true ∧
    Gen.Acct.usagePairOrder = true ∧ Gen.Acct.statusFromQueue = true ∧ Gen.Acct.uploadReadsWrites = true ∧
    Gen.Acct.creditCodec = true := by decide

/-- OBLIGATION: step granularity — every queue access under `usageUpdateQueueM`, commit's snapshot and reset in the
same section, the collection of all users inside both locks, the upload one transaction, the response loop
terminating via `TerminateActiveUser` which collects, closes every session, then deletes. -/
theorem gen_structure :
    Gen.Acct.queueUnderLock = true ∧ Gen.Acct.queueAccessElsewhere = 0 ∧ Gen.Acct.collectUnderBothLocks = true ∧
    Gen.Acct.uploadOneTransaction = true ∧ Gen.Acct.uploadVerdicts = true ∧ Gen.Acct.commitTerminates = true ∧
    Gen.Acct.terminateOrder = true ∧ Gen.Acct.closeAllClosesEvery = true ∧ Gen.Acct.freshValvePerRecord = true := by
  decide

/-- OBLIGATION: the verdict comparisons of `UploadStatus` -/
theorem gen_verdict (s : St) (now : Int) (u : U) :
    verdict s now u = true ↔
      (s.present u = false ∨ s.stored (u, false) ≤ 0 ∨ s.stored (u, true) ≤ 0 ∨ s.expiry u < now) := by
  unfold verdict Gen.Acct.uploadUpExhausted Gen.Acct.uploadDownExhausted Gen.Acct.uploadExpired
  simp only [Bool.or_eq_true, Bool.not_eq_true', decide_eq_true_eq]
  cases s.present u <;> simp <;> omega

/-! ## 2. Conservation, at most once, exactness -/

/-- **C16 conservation**: in every reachable state, for every user and direction -/
theorem c16_conservation (evs : List Ev) : Inv (run init evs) ∧ NonNeg (run init evs) :=
  ⟨run_inv evs init inv_init, run_nonneg evs init nonneg_init⟩

/-- **C16 at most once, never from another user**: what has been deducted from `(u, dir)`'s credit never exceeds
what `u` itself carried in that direction — after ANY interleaving of traffic on any users, collections, commits,
terminations, re-activations and admin changes. -/
theorem c16_at_most_once (evs : List Ev) (k : K) :
    let s := run init evs
    s.granted k - s.stored k ≤ s.carried k := by
  obtain ⟨hi, hn⟩ := c16_conservation evs
  have h1 := hi k
  obtain ⟨a, b, c, d, e, f⟩ := hn k
  have hf := fsum_nonneg _ k f
  simp only
  omega

/-- in particular a user who carried nothing is charged nothing, whatever the others do -/
theorem c16_no_cross_charge (evs : List Ev) (k : K) (h0 : (run init evs).carried k = 0) :
    (run init evs).granted k ≤ (run init evs).stored k := by
  have := c16_at_most_once evs k
  simp only at this
  omega

/-- **C16 exact** (state form): once nothing is left in a valve, in a retired record's valve, pending, queued or in
flight for `(u, dir)`, and nothing was dropped for a deleted user, the stored credit is the granted credit minus
the volume carried. -/
theorem c16_exact (evs : List Ev) (k : K) :
    let s := run init evs
    s.valve k = 0 → s.old k = 0 → s.pending k = 0 → s.queue k = 0 → fsum s.inflight k = 0 → s.dropped k = 0 →
    s.stored k = s.granted k - s.carried k := by
  obtain ⟨hi, _⟩ := c16_conservation evs
  have h1 := hi k
  simp only
  intros
  omega

/-- **C16 exact** (operational form): traffic has stopped; for an active, existing user with nothing stranded
(`old`, `pending`, `dropped`) and no upload in flight, ONE collection followed by ONE commit (snapshot + upload)
makes the stored credit equal granted − carried. -/
theorem c16_exact_after_round (evs : List Ev) (k : K) (now : Int) :
    let s := run init evs
    k.1 ∈ s.actives → s.present k.1 = true → s.old k = 0 → s.pending k = 0 → s.dropped k = 0 → s.inflight = [] →
    let s' := run s [.collectAll, .snapshot, .upload now]
    s'.stored k = s'.granted k - s'.carried k ∧ s'.carried k = s.carried k := by
  intro s hact hpres hold hpend hdrop hinf s'
  have hinv : Inv s' := run_inv _ _ (c16_conservation evs).1
  have h1 := hinv k
  have hv : s'.valve k = 0 := by
    simp only [s', run, List.foldl, step, hinf, List.nil_append, hact, if_true]
  have ho : s'.old k = 0 := by simp only [s', run, List.foldl, step, hinf, List.nil_append]; exact hold
  have hp : s'.pending k = 0 := by simp only [s', run, List.foldl, step, hinf, List.nil_append]; exact hpend
  have hq : s'.queue k = 0 := by simp only [s', run, List.foldl, step, hinf, List.nil_append]
  have hf : fsum s'.inflight k = 0 := by simp only [s', run, List.foldl, step, hinf, List.nil_append]; simp [fsum]
  have hd : s'.dropped k = 0 := by
    simp only [s', run, List.foldl, step, hinf, List.nil_append, hpres, if_true]; exact hdrop
  have hc : s'.carried k = s.carried k := by simp only [s', run, List.foldl, step, hinf, List.nil_append]
  exact ⟨by omega, hc⟩

/-- non-vacuity: two users, traffic in both directions, a collection, a commit, a termination and a re-activation -/
example :
    let s := run init [.put 1 1000 2000 50, .put 2 500 500 50, .activate 1 10, .activate 2 10, .openSess 1,
      .traffic 1 false 30, .traffic 1 true 70, .traffic 2 false 5, .collectAll, .traffic 1 false 1, .snapshot,
      .upload 11, .swapOne 1, .enqueueOne 1, .closeAllSess 1, .retire 1, .snapshot, .upload 12]
    (s.stored (1, false), s.stored (1, true), s.stored (2, false), s.carried (1, false), s.actives) =
      (969, 1930, 495, 31, [2]) := by decide

/-! ## 3. Cut-off -/

theorem terminate_actives (s : St) (u : U) : (terminate s u).actives = s.actives.filter (· ≠ u) := by
  simp [terminate, step]

theorem terminate_nsess (s : St) (u : U) : (terminate s u).nsess = fun x => if x = u then 0 else s.nsess x := by
  simp [terminate, step]

/-- after the commit of a snapshot, every user in it for whom the transaction left a credit ≤ 0, or found the
expiry passed, or found no record, is no longer active and (its record's) sessions are all closed -/
def CutOff (s : St) (u : U) : Prop := u ∉ s.actives ∧ s.nsess u = 0

/-- sessions only exist in active records (true of every state the response loop starts from) -/
def Wf (s : St) (u : U) : Prop := u ∉ s.actives → s.nsess u = 0

theorem respond_step_wf (st : St) (u v : U) (h : Wf st u) :
    Wf (if v ∈ st.actives then terminate st v else st) u := by
  split
  · intro hn
    rw [terminate_actives] at hn
    rw [terminate_nsess]
    by_cases huv : u = v
    · simp [huv]
    · have : u ∉ st.actives := by
        intro hm; apply hn; simp [List.mem_filter, hm, huv]
      simp [huv, h this]
  · exact h

theorem respond_step_cut (st : St) (u v : U) (h : CutOff st u) :
    CutOff (if v ∈ st.actives then terminate st v else st) u := by
  split
  · refine ⟨?_, ?_⟩
    · rw [terminate_actives]; intro hm; exact h.1 (List.mem_filter.1 hm).1
    · rw [terminate_nsess]; by_cases huv : u = v <;> simp [huv, h.2]
  · exact h

theorem respondAll_cut (vs : List U) (u : U) : ∀ st : St, CutOff st u → CutOff (respondAll vs st) u := by
  induction vs with
  | nil => intro st h; exact h
  | cons v rest ih => intro st h; exact ih _ (respond_step_cut st u v h)

theorem respondAll_mem (vs : List U) (u : U) (hu : u ∈ vs) : ∀ st : St, Wf st u → CutOff (respondAll vs st) u := by
  induction vs with
  | nil => cases hu
  | cons v rest ih =>
    intro st hw
    simp only [respondAll, List.foldl_cons]
    by_cases huv : u = v
    · subst huv
      apply respondAll_cut
      by_cases hm : u ∈ st.actives
      · simp only [hm, if_true]
        refine ⟨?_, ?_⟩
        · rw [terminate_actives]; simp [List.mem_filter]
        · rw [terminate_nsess]; simp
      · simp only [hm, if_false]; exact ⟨hm, hw hm⟩
    · have : u ∈ rest := by
        rcases List.mem_cons.1 hu with h | h
        · exact absurd h huv
        · exact h
      exact ih this _ (respond_step_wf st u v hw)

/-- **C16 cut-off**: `commitUpdate`'s second half on the oldest snapshot (the `UploadStatus` transaction, then the
response loop): every user of that snapshot whose credit the transaction left at or below zero (either direction),
or whose expiry has passed, or who has no record any more, ends up not active and with all sessions closed. -/
theorem c16_cutoff (s : St) (now : Int) (keys : List U) (f : Fn) (rest : List (List U × Fn))
    (hin : s.inflight = (keys, f) :: rest) (u : U) (hu : u ∈ keys) (hw : Wf s u)
    (hv : (step s (.upload now)).present u = false ∨ (step s (.upload now)).stored (u, false) ≤ 0 ∨
          (step s (.upload now)).stored (u, true) ≤ 0 ∨ (step s (.upload now)).expiry u < now) :
    CutOff (commitOldest s now) u := by
  unfold commitOldest
  simp only [hin]
  apply respondAll_mem
  · exact List.mem_filter.2 ⟨hu, (gen_verdict _ _ _).2 hv⟩
  · intro hn
    have ha : (step s (.upload now)).actives = s.actives := by simp only [step, hin]
    have hs : (step s (.upload now)).nsess = s.nsess := by simp only [step, hin]
    rw [hs]; rw [ha] at hn; exact hw hn

/-- … and stays cut off: while the database keeps saying so, the user cannot be activated again -/
theorem c16_cutoff_stays (s : St) (u : U) (now : Int) (hn : u ∉ s.actives)
    (hv : s.present u = false ∨ s.stored (u, false) ≤ 0 ∨ s.stored (u, true) ≤ 0 ∨ s.expiry u < now) :
    step s (.activate u now) = s := by
  have : authOk s u now = false := by
    unfold authOk
    by_cases hp : s.present u = false
    · simp [hp]
    · have hp' : s.present u = true := by simpa using hp
      simp only [hp', Bool.true_and]
      unfold Gen.Panel.authenticateChecks
      simp only [List.find?_cons, List.find?_nil]
      repeat' split
      all_goals simp_all
      all_goals omega
  simp only [step, hn, if_false, this]
  rfl

/-- non-vacuity of the cut-off: a user driven to zero download credit with two open sessions -/
example :
    let s := run init [.put 1 100 40 50, .activate 1 10, .openSess 1, .openSess 1, .traffic 1 true 40, .collectAll, .snapshot]
    (s.nsess 1, s.actives, (commitOldest s 11).nsess 1, (commitOldest s 11).actives, (commitOldest s 11).stored (1, true)) =
      (2, [1], 0, [], 0) := by decide

end C16

#print axioms C16.c16_conservation
#print axioms C16.c16_at_most_once
#print axioms C16.c16_exact_after_round
#print axioms C16.c16_cutoff
