import CloakModel.Model.PipeDeadline
import CloakModel.Props.C14

/-! # C14 with read deadlines

`client.RouteUDP` sets a read deadline on every stream and refreshes it on every datagram; `Props/C14.lean` is about the
pipe without deadlines (`DG.read`).  Here: the pipe on a virtual clock (`Model/PipeDeadline.lean`).

* `gen_deadline` — the regenerated facts the model is built from: order of the tests in `Read`'s wait loop, the
  timed-out comparison, `SetReadDeadline` wakes, `broadcastAfter` arms for the time left.
* `no_deadline_is_plain` — without a deadline a pass through the loop IS `DG.read` (so every theorem of `Props/C14.lean`
  speaks about the timed pipe too).
* `timeout_keeps`, `park_keeps` — a read that times out or parks changes nothing in the pipe.
* `c14_deadline_fifo` — after ANY sequence of writes (data/closing), reads of any buffer size, closes, deadline changes
  and passages of time, parked and woken readers included: what the reads returned followed by what the pipe queues is
  what it accepted — no datagram lost, cut, merged, duplicated or reordered by a deadline.
* `c14_timeout_sound` — a read answers `ErrTimeout` only with a deadline set that has been reached; never with EOF due.
* `c14_returns_by_deadline` — invariant `Inv`: a parked reader under deadline `d` has the timer armed for exactly `d`
  and `now < d`; hence once time has passed `d` no reader is parked (nothing stays blocked past its deadline). -/
set_option linter.unusedVariables false

namespace C14D
open DG PDL

theorem gen_deadline :
    Gen.Deadline.dgDeadlineOrder = true ∧ Gen.Deadline.dgSetDeadlineWakes = true ∧ Gen.Deadline.dgTimerArms = true ∧
    Gen.Deadline.spDeadlineOrder = true ∧ Gen.Deadline.spSetDeadlineWakes = true ∧ Gen.Deadline.spTimerArms = true := by
  decide

/-- `datagramBufferedPipe.Write` stores every data frame it does not refuse for a closed pipe: no other way out (T1) -/
theorem gen_write_stores : Gen.Datagram.dgWriteStoresWhatItDoesNotRefuse = true := by decide

/-- the extracted comparison: timed out ⇔ the deadline is not in the future -/
theorem gen_timed_out (d now : Nat) : Gen.Deadline.dgTimedOut ((d : Int) - (now : Int)) = true ↔ d ≤ now := by
  unfold Gen.Deadline.dgTimedOut
  simp only [decide_eq_true_eq]
  omega

theorem gen_timed_out_sp (d now : Nat) : Gen.Deadline.spTimedOut ((d : Int) - (now : Int)) = true ↔ d ≤ now := by
  unfold Gen.Deadline.spTimedOut
  simp only [decide_eq_true_eq]
  omega

/-- the ghost-extended state seen as a run of the untimed pipe -/
def toRun (s : St) : C14.Run := ⟨s.p, s.outs, s.acc⟩

/-! ## one pass through the loop -/

theorem take_run (s : St) (cap : Nat) : toRun (take s cap).1 = C14.step (toRun s) (.r cap) := rfl

/-- when the pipe has something to say (`DG.read` does not block) and no deadline has passed, the pass is `DG.read` -/
theorem eval_cases (s : St) (cap : Nat) :
    (eval s cap = take s cap ∧ (DG.read s.p cap).2 ≠ .block) ∨
    (eval s cap = (s, .timeout) ∧ ∃ d, s.deadline = some d ∧ d ≤ s.now ∧ ¬ (s.p.closed = true ∧ s.p.lens.length = 0)) ∨
    ((eval s cap).2 = .park ∧ (eval s cap).1 = { s with timer := (match s.deadline with | some d => some d | none => s.timer) } ∧
      (DG.read s.p cap).2 = .block ∧ ∀ d, s.deadline = some d → s.now < d) := by
  obtain ⟨p, now, deadline, timer, pending, outs, acc⟩ := s
  unfold eval
  by_cases heof : Gen.Datagram.dgEOF p.closed (p.lens.length : Int) = true
  · left
    rw [if_pos heof]
    refine ⟨rfl, ?_⟩
    have := (C14.gen_eof p.closed p.lens.length).1 heof
    rw [C14.read_eq]
    have hl : p.lens = [] := List.length_eq_zero_iff.mp this.2
    rw [hl]; simp [this.1]
  · rw [if_neg heof]
    have hne : ¬ (p.closed = true ∧ p.lens.length = 0) := fun h => heof ((C14.gen_eof _ _).2 h)
    cases deadline with
    | some d =>
      simp only
      by_cases hto : Gen.Deadline.dgTimedOut ((d : Int) - (now : Int)) = true
      · right; left
        rw [if_pos hto]
        exact ⟨rfl, d, rfl, (gen_timed_out d now).1 hto, hne⟩
      · rw [if_neg hto]
        have hlt : now < d := by
          have : ¬ d ≤ now := fun h => hto ((gen_timed_out d now).2 h)
          omega
        by_cases hhas : Gen.Datagram.dgHasData (p.lens.length : Int) = true
        · left
          rw [if_pos hhas]
          refine ⟨rfl, ?_⟩
          have hpos := (C14.gen_has _).1 hhas
          rw [C14.read_eq]
          cases hl : p.lens with
          | nil => rw [hl] at hpos; simp at hpos
          | cons l ls => simp only; split <;> simp
        · right; right
          rw [if_neg hhas]
          refine ⟨rfl, rfl, ?_, ?_⟩
          · have hz : ¬ 0 < p.lens.length := fun h => hhas ((C14.gen_has _).2 h)
            have hl : p.lens = [] := List.length_eq_zero_iff.mp (by omega)
            rw [C14.read_eq, hl]
            have hc : ¬ p.closed = true := fun hc => hne ⟨hc, by rw [hl]; rfl⟩
            simp [hc]
          · intro d' hd'; injection hd' with hd'; omega
    | none =>
      simp only
      by_cases hhas : Gen.Datagram.dgHasData (p.lens.length : Int) = true
      · left
        rw [if_pos hhas]
        refine ⟨rfl, ?_⟩
        have hpos := (C14.gen_has _).1 hhas
        rw [C14.read_eq]
        cases hl : p.lens with
        | nil => rw [hl] at hpos; simp at hpos
        | cons l ls => simp only; split <;> simp
      · right; right
        rw [if_neg hhas]
        refine ⟨rfl, rfl, ?_, ?_⟩
        · have hz : ¬ 0 < p.lens.length := fun h => hhas ((C14.gen_has _).2 h)
          have hl : p.lens = [] := List.length_eq_zero_iff.mp (by omega)
          rw [C14.read_eq, hl]
          have hc : ¬ p.closed = true := fun hc => hne ⟨hc, by rw [hl]; rfl⟩
          simp [hc]
        · intro d' hd'; cases hd'

/-- **without a deadline a pass through the loop is the untimed `DG.read`**: same answer (parking = `block`), same pipe -/
theorem no_deadline_is_plain (s : St) (cap : Nat) (h : s.deadline = none) :
    (eval s cap).1.p = (DG.read s.p cap).1 ∧
    (eval s cap).2 = (match (DG.read s.p cap).2 with | .block => .park | o => .r o) := by
  rcases eval_cases s cap with ⟨he, hnb⟩ | ⟨_, d, hd, _⟩ | ⟨hp, hs, hb, _⟩
  · rw [he]
    refine ⟨rfl, ?_⟩
    simp only [take]
  · rw [h] at hd; cases hd
  · rw [hp, hs, hb]
    refine ⟨?_, rfl⟩
    have : (DG.read s.p cap).1 = s.p := by
      rw [C14.read_eq] at hb ⊢
      cases hl : s.p.lens with
      | nil => simp only [hl] at hb ⊢; split <;> rfl
      | cons l ls => simp only [hl] at hb; split at hb <;> cases hb
    simp [this]

/-- a read that times out changes nothing: the datagrams stay queued, whole -/
theorem timeout_keeps (s : St) (cap : Nat) (h : (eval s cap).2 = .timeout) : (eval s cap).1 = s := by
  rcases eval_cases s cap with ⟨he, _⟩ | ⟨he, _⟩ | ⟨hp, _⟩
  · rw [he] at h; simp [take] at h
  · rw [he]
  · rw [hp] at h; cases h

/-- a read that parks changes nothing in the pipe (it may arm the timer) -/
theorem park_keeps (s : St) (cap : Nat) (h : (eval s cap).2 = .park) :
    toRun (eval s cap).1 = toRun s ∧ (eval s cap).1.now = s.now ∧ (eval s cap).1.deadline = s.deadline ∧
    (eval s cap).1.pending = s.pending := by
  rcases eval_cases s cap with ⟨he, _⟩ | ⟨he, _⟩ | ⟨_, hs, _⟩
  · rw [he] at h; simp [take] at h
  · rw [he] at h; cases h
  · rw [hs]; exact ⟨rfl, rfl, rfl, rfl⟩

/-- every pass either leaves the untimed run alone or performs exactly one `read` step of it -/
theorem eval_run (s : St) (cap : Nat) :
    toRun (eval s cap).1 = toRun s ∨ toRun (eval s cap).1 = C14.step (toRun s) (.r cap) := by
  rcases eval_cases s cap with ⟨he, _⟩ | ⟨he, _⟩ | ⟨_, hs, _⟩
  · right; rw [he]; rfl
  · left; rw [he]
  · left; rw [hs]; rfl

/-! ## the FIFO invariant survives deadlines -/

theorem wake_run (s : St) : C14.Inv (toRun s) → C14.Inv (toRun (wake s).1) := by
  intro h
  unfold wake
  cases hp : s.pending with
  | none => exact h
  | some cap =>
    simp only
    have key : C14.Inv (toRun (eval s cap).1) := by
      rcases eval_run s cap with e | e
      · rw [e]; exact h
      · rw [e]; exact C14.inv_step _ _ h
    cases hev : eval s cap with
    | mk s' o =>
      rw [hev] at key
      cases o <;> exact key

theorem fire_run (s : St) (t : Nat) : C14.Inv (toRun s) → C14.Inv (toRun (fire s t).1) := by
  intro h
  unfold fire
  cases s.timer with
  | none => exact h
  | some f =>
    simp only
    split
    · exact wake_run _ h
    · exact h

theorem step_run (s : St) (op : Op) : C14.Inv (toRun s) → C14.Inv (toRun (step s op).1) := by
  intro h
  cases op with
  | w c d =>
    simp only [step]
    have : C14.Inv (toRun { s with p := (DG.write s.p c d).1, acc := if (DG.write s.p c d).2 = .ok then s.acc ++ [d] else s.acc }) :=
      C14.inv_step (toRun s) (.w c d) h
    exact wake_run _ this
  | r cap =>
    simp only [step]
    cases hp : s.pending with
    | some _ => exact h
    | none =>
      simp only
      have key : C14.Inv (toRun (eval s cap).1) := by
        rcases eval_run s cap with e | e
        · rw [e]; exact h
        · rw [e]; exact C14.inv_step _ _ h
      cases hev : eval s cap with
      | mk s' o =>
        rw [hev] at key
        cases o <;> exact key
  | c =>
    simp only [step]
    have : C14.Inv (toRun { s with p := DG.close s.p }) := C14.inv_step (toRun s) .c h
    exact wake_run _ this
  | dl a =>
    simp only [step]
    exact wake_run _ h
  | adv dt =>
    simp only [step]
    exact fire_run _ _ (fire_run _ _ h)

/-- **C14 with read deadlines (whole messages, FIFO, at most once).**  After ANY sequence of arriving frames (data or
closing), reads with any buffer sizes — returning at once, timing out, or parking and being woken later by a write, a
close, a new deadline or the timer —, local closes, deadline changes (set, moved, cleared) and passages of time: the
datagrams the reads returned (in order) followed by the datagrams still queued are exactly the datagrams the pipe accepted,
in arrival order, each whole.  A deadline never loses, cuts, merges, duplicates or reorders a datagram. -/
theorem c14_deadline_fifo (ops : List Op) :
    ∃ q : List Bytes, C14.dataOf (run ops).outs ++ q = (run ops).acc ∧
      (run ops).p.lens = q.map List.length ∧ (run ops).p.buf = q.flatten := by
  have : ∀ (ops : List Op) (s : St), C14.Inv (toRun s) → C14.Inv (toRun (ops.foldl (fun s op => (step s op).1) s)) := by
    intro ops
    induction ops with
    | nil => intro s h; exact h
    | cons op r ih => intro s h; exact ih _ (step_run s op h)
  obtain ⟨q, ha, hq⟩ := this ops init ⟨[], C14.abs_empty, rfl⟩
  exact ⟨q, hq, ha.1, ha.2⟩

/-- **`ErrTimeout` is sound**: a pass answers `ErrTimeout` only if a deadline is set and has been reached, and EOF is not
due (a closed, drained pipe answers EOF whatever the deadline) -/
theorem c14_timeout_sound (s : St) (cap : Nat) (h : (eval s cap).2 = .timeout) :
    ∃ d, s.deadline = some d ∧ d ≤ s.now ∧ ¬ (s.p.closed = true ∧ s.p.lens.length = 0) := by
  rcases eval_cases s cap with ⟨he, _⟩ | ⟨_, hd⟩ | ⟨hp, _⟩
  · rw [he] at h; simp [take] at h
  · exact hd
  · rw [hp] at h; cases h

/-- and complete: with a deadline reached and EOF not due, the pass answers `ErrTimeout` — also when datagrams are queued -/
theorem c14_timeout_complete (s : St) (cap d : Nat) (hd : s.deadline = some d) (hle : d ≤ s.now)
    (hne : ¬ (s.p.closed = true ∧ s.p.lens.length = 0)) : eval s cap = (s, .timeout) := by
  unfold eval
  have heof : ¬ Gen.Datagram.dgEOF s.p.closed (s.p.lens.length : Int) = true := fun h => hne ((C14.gen_eof _ _).1 h)
  rw [if_neg heof, hd]
  simp only
  rw [if_pos ((gen_timed_out d s.now).2 hle)]

/-! ## nothing stays parked past its deadline -/

/-- a parked reader under deadline `d` has the timer armed for exactly `d`, and `d` is still ahead; an armed timer is
always ahead of the clock -/
def Inv (s : St) : Prop :=
  (∀ cap d, s.pending = some cap → s.deadline = some d → s.timer = some d ∧ s.now < d) ∧
  (∀ cap, s.pending = some cap → (DG.read s.p cap).2 = .block) ∧
  (∀ f, s.timer = some f → s.now < f)

theorem inv_init : Inv init := by
  refine ⟨?_, ?_, ?_⟩ <;> intros <;> simp_all [init]

/-- a wake-up re-establishes the invariant from a state in which only the reader's own clauses may be stale -/
theorem wake_inv (s : St) (ht : ∀ f, s.timer = some f → s.now < f) : Inv (wake s).1 := by
  unfold wake
  cases hp : s.pending with
  | none =>
    refine ⟨?_, ?_, ht⟩
    · intro cap d h; rw [hp] at h; cases h
    · intro cap h; rw [hp] at h; cases h
  | some cap =>
    simp only
    rcases eval_cases s cap with ⟨he, hnb⟩ | ⟨he, _⟩ | ⟨hpk, hs, hb, hlt⟩
    · rw [he]
      have hne : (take s cap).2 ≠ .park := by simp [take]
      cases hto : (take s cap) with
      | mk s' o =>
        have ho : o ≠ .park := by rw [hto] at hne; exact hne
        have hs' : s' = (take s cap).1 := by rw [hto]
        cases o with
        | park => exact absurd rfl ho
        | r x =>
          simp only
          refine ⟨?_, ?_, ?_⟩
          · intro c d h; cases h
          · intro c h; cases h
          · intro f hf; rw [hs'] at hf ⊢; exact ht f hf
        | timeout =>
          simp only
          refine ⟨?_, ?_, ?_⟩
          · intro c d h; cases h
          · intro c h; cases h
          · intro f hf; rw [hs'] at hf ⊢; exact ht f hf
    · rw [he]
      simp only
      refine ⟨?_, ?_, ht⟩
      · intro c d h; cases h
      · intro c h; cases h
    · cases hev : eval s cap with
      | mk s' o =>
        have ho : o = .park := by rw [hev] at hpk; exact hpk
        have hs' : s' = { s with timer := (match s.deadline with | some d => some d | none => s.timer) } := by
          rw [hev] at hs; exact hs
        subst ho
        simp only
        subst hs'
        refine ⟨?_, ?_, ?_⟩
        · intro c d hc hdl
          simp only at hc hdl ⊢
          rw [hdl]
          exact ⟨rfl, hlt d hdl⟩
        · intro c hc
          simp only at hc ⊢
          rw [hp] at hc; injection hc with hc; subst hc; exact hb
        · intro f hf
          simp only at hf ⊢
          cases hdl : s.deadline with
          | some d => rw [hdl] at hf; injection hf with hf; subst hf; exact hlt d hdl
          | none => rw [hdl] at hf; exact ht f hf

/-- the clock of a wake-up is the clock it was given -/
theorem wake_now (s : St) : (wake s).1.now = s.now := by
  unfold wake
  cases hp : s.pending with
  | none => rfl
  | some cap =>
    simp only
    rcases eval_cases s cap with ⟨he, _⟩ | ⟨he, _⟩ | ⟨hpk, hs, _⟩
    · rw [he]; simp only [take]
    · rw [he]
    · cases hev : eval s cap with
      | mk s' o =>
        have ho : o = .park := by rw [hev] at hpk; exact hpk
        have hs' : s' = { s with timer := (match s.deadline with | some d => some d | none => s.timer) } := by
          rw [hev] at hs; exact hs
        subst ho; subst hs'; rfl

theorem fire_inv' (s : St) (t : Nat) (h : Inv s) : Inv (fire s t).1 := by
  unfold fire
  cases htm : s.timer with
  | none => simpa using h
  | some f =>
    simp only
    by_cases hf : f ≤ t
    · rw [if_pos hf]
      apply wake_inv
      intro f' hf'; cases hf'
    · rw [if_neg hf]; exact h

/-- after the timer had its chance, whatever is still armed lies beyond `t` -/
theorem fire_beyond (s : St) (t : Nat) (h : Inv s) :
    (∀ f, (fire s t).1.timer = some f → t < f) ∧ (fire s t).1.now ≤ max s.now t := by
  obtain ⟨p, now, deadline, timer, pending, outs, acc⟩ := s
  unfold fire
  cases timer with
  | none => exact ⟨(by intro f hf; cases hf), Nat.le_max_left _ _⟩
  | some f =>
    simp only
    by_cases hf : f ≤ t
    · rw [if_pos hf]
      generalize hs0 : St.mk p (max now f) deadline none pending outs acc = s0
      have hnow : (wake s0).1.now = max now f := by rw [wake_now]; subst hs0; rfl
      refine ⟨?_, by rw [hnow]; omega⟩
      intro f' hf'
      cases pending with
      | none => subst hs0; simp [wake] at hf'
      | some cap =>
        have hp0 : s0.pending = some cap := by subst hs0; rfl
        unfold wake at hf'
        rw [hp0] at hf'
        simp only at hf'
        rcases eval_cases s0 cap with ⟨he, _⟩ | ⟨he, _⟩ | ⟨hpk, hs, _, hlt⟩
        · rw [he] at hf'; subst hs0; simp [take] at hf'
        · rw [he] at hf'; subst hs0; simp at hf'
        · cases hev : eval s0 cap with
          | mk s' o =>
            rw [hev] at hpk hs hf'
            simp only at hpk hs hf'
            subst hpk
            simp only at hf'
            rw [hs] at hf'
            subst hs0
            simp only at hf' hlt
            cases deadline with
            | none => simp at hf'
            | some d =>
              simp only at hf'
              injection hf' with hf'
              have hd := (h.1 cap d rfl rfl).1
              simp only at hd
              injection hd with hd
              have := hlt d rfl
              omega
    · rw [if_neg hf]
      refine ⟨?_, Nat.le_max_left _ _⟩
      intro f' hf'; simp only at hf'; injection hf' with hf'; omega

theorem step_inv (s : St) (op : Op) (h : Inv s) : Inv (step s op).1 := by
  cases op with
  | w c d =>
    simp only [step]
    exact wake_inv _ h.2.2
  | r cap =>
    simp only [step]
    cases hp : s.pending with
    | some _ => exact h
    | none =>
      simp only
      rcases eval_cases s cap with ⟨he, hnb⟩ | ⟨he, _⟩ | ⟨hpk, hs, hb, hlt⟩
      · rw [he]
        cases hto : take s cap with
        | mk s' o =>
          have : o ≠ .park := by
            have : (take s cap).2 ≠ .park := by simp [take]
            rw [hto] at this; exact this
          have hs' : s' = (take s cap).1 := by rw [hto]
          cases o with
          | park => exact absurd rfl this
          | r x =>
            simp only; subst hs'
            refine ⟨?_, ?_, h.2.2⟩
            · intro c d hc; simp only [take] at hc; rw [hp] at hc; cases hc
            · intro c hc; simp only [take] at hc; rw [hp] at hc; cases hc
          | timeout =>
            simp only; subst hs'
            refine ⟨?_, ?_, h.2.2⟩
            · intro c d hc; simp only [take] at hc; rw [hp] at hc; cases hc
            · intro c hc; simp only [take] at hc; rw [hp] at hc; cases hc
      · rw [he]
        simp only
        refine ⟨?_, ?_, h.2.2⟩
        · intro c d hc; rw [hp] at hc; cases hc
        · intro c hc; rw [hp] at hc; cases hc
      · cases hev : eval s cap with
        | mk s' o =>
          have ho : o = .park := by rw [hev] at hpk; exact hpk
          rw [hev] at hs
          subst ho
          simp only at hs ⊢
          subst hs
          refine ⟨?_, ?_, ?_⟩
          · intro c d hc hdl
            simp only at hc hdl ⊢
            rw [hdl]; exact ⟨rfl, hlt d hdl⟩
          · intro c hc
            simp only at hc ⊢
            injection hc with hc; subst hc; exact hb
          · intro f hf
            simp only at hf ⊢
            cases hdl : s.deadline with
            | some d => rw [hdl] at hf; injection hf with hf; subst hf; exact hlt d hdl
            | none => rw [hdl] at hf; exact h.2.2 f hf
  | c =>
    simp only [step]
    exact wake_inv _ h.2.2
  | dl a =>
    simp only [step]
    exact wake_inv _ h.2.2
  | adv dt =>
    simp only [step]
    have h1 := fire_inv' s (s.now + dt) h
    have b1 := fire_beyond s (s.now + dt) h
    have h2 := fire_inv' (fire s (s.now + dt)).1 (s.now + dt) h1
    have b2 := fire_beyond (fire s (s.now + dt)).1 (s.now + dt) h1
    refine ⟨?_, ?_, ?_⟩
    · intro c d hc hdl
      simp only at hc hdl ⊢
      obtain ⟨ht, _⟩ := h2.1 c d hc hdl
      exact ⟨ht, b2.1 d ht⟩
    · intro c hc
      simp only at hc ⊢
      exact h2.2.1 c hc
    · intro f hf
      simp only at hf ⊢
      exact b2.1 f hf

theorem run_inv (ops : List Op) : Inv (run ops) := by
  have : ∀ (ops : List Op) (s : St), Inv s → Inv (ops.foldl (fun s op => (step s op).1) s) := by
    intro ops
    induction ops with
    | nil => intro s h; exact h
    | cons op r ih => intro s h; exact ih _ (step_inv s op h)
  exact this ops init inv_init

/-- **Nothing stays parked past its deadline.**  In every reachable state — any writes, reads, closes, deadline changes
and passages of time —: a reader that is parked while a deadline `d` is set has `now < d` (and the timer is armed for
exactly `d`, so it will be woken then); i.e. once the clock has reached the deadline no reader is parked. -/
theorem c14_returns_by_deadline (ops : List Op) (cap d : Nat)
    (hp : (run ops).pending = some cap) (hd : (run ops).deadline = some d) :
    (run ops).now < d ∧ (run ops).timer = some d := by
  obtain ⟨ht, hlt⟩ := (run_inv ops).1 cap d hp hd
  exact ⟨hlt, ht⟩

/-- … and a parked reader is parked for a reason: the pipe has nothing for it (open and empty) -/
theorem c14_parked_means_empty (ops : List Op) (cap : Nat) (hp : (run ops).pending = some cap) :
    (DG.read (run ops).p cap).2 = .block := (run_inv ops).2.1 cap hp

/-! ### non-vacuity -/

/-- two datagrams; a deadline at 100; the first read returns `[1,2]`; time passes to 150; the next read times out although
`[3]` is queued — and `[3]` is still there, whole; the deadline is moved to 300, the read returns `[3]`; a third read parks;
at 300 the timer wakes it with `ErrTimeout` -/
example :
    let ops := [Op.w 0 [1, 2], .w 0 [3], .dl (some 100), .r 5, .adv 150, .r 5, .dl (some 300), .r 5, .r 5, .adv 100, .adv 50]
    (run ops).outs = [.data [1, 2], .data [3]] ∧ (run ops).acc = [[1, 2], [3]] ∧ (run ops).pending = none ∧
    (run ops).now = 300 ∧
    ((step (run (ops.take 5)) (.r 5)).2.r = some .timeout) ∧
    ((step (run (ops.take 8)) (.r 5)).2.r = some .park) ∧
    ((step (run (ops.take 10)) (.adv 50)).2.woke = some .timeout) := by
  decide

/-- `c14_returns_by_deadline`'s hypotheses are met by a reachable state: a reader parked under deadline 300 at time 150 -/
example :
    let ops := [Op.dl (some 300), .adv 150, .r 5]
    (run ops).pending = some 5 ∧ (run ops).deadline = some 300 ∧ (run ops).timer = some 300 ∧ (run ops).now = 150 := by
  decide

end C14D

#print axioms C14D.c14_deadline_fifo
#print axioms C14D.c14_returns_by_deadline
#print axioms C14D.c14_timeout_sound
#print axioms C14D.no_deadline_is_plain
