import CloakModel.Props.C19Int64

/-! # C19 — the constructor finds a `(quantum, fillInterval)` within 1 % of every rate `MakeValve` can ask for

`juju/ratelimit`'s `NewBucketWithRate` PANICS when its search over quanta finds nothing, and the bound proofs and the
`int64` exactness (`c19_refill_fits`) take "the real rate is within 1 % of the configured one" as a hypothesis. Here, for
the search in exact arithmetic (`TB.search`, compared with the real constructor's choice for every rate the harness
builds):

* `search_sound` — whatever it returns is positive, below `2⁵⁰`, is `⌊10⁹·q/rate⌋`, and within 1 %;
* `c19_search_total` — for every rate from 1 to `2³⁴` (what `MakeValve` passes after its cap) it returns something: the
  constructor does not panic, whatever the administrator wrote;
* `c19_made_buckets_fit` — so every bucket `MakeValve` makes meets the hypotheses of `c19_refill_fits`.

Modelled, not proved: the constructor computes in `float64`; for integer rates up to `2³⁴` and the quanta the search
visits, the quotient `10⁹·q/rate` is far enough from an integer boundary for the rounded division to truncate to the same
value, and the 1 % test is not within rounding distance of equality unless `10¹¹·q = 101·rate·fi` exactly (the harness
skips the comparison for such a rate). -/

namespace C19
open TB

theorem gen_search : Gen.Valve.tbSearchShape = true ∧ Gen.Valve.tbNextQuantumShape = true ∧ Gen.Valve.tbRateMarginText = "0.01" := by decide

theorem nextQ_bounds (q : Int) (hq : 1 ≤ q) : q < nextQ q ∧ nextQ q ≤ q + q / 10 + 1 := by
  unfold nextQ Gen.Valve.tbNextQuantumFirst
  rw [Int.tdiv_eq_ediv_of_nonneg (by omega)]
  simp only
  split <;> omega

theorem within_iff (q fi rate : Int) : within q fi rate = true ↔ 100 * ((q * 1000000000 - rate * fi).natAbs : Int) ≤ rate * fi := by
  unfold within; simp only [decide_eq_true_eq]

/-- once `⌊10⁹·q/rate⌋ ≥ 100` the candidate is within 1 % -/
theorem within_of_fi_ge (q rate : Int) (hr : 0 < rate) (hq : 0 ≤ q) (h100 : 100 ≤ 1000000000 * q / rate) :
    within q (1000000000 * q / rate) rate = true := by
  rw [within_iff]
  have h1 : rate * (1000000000 * q / rate) ≤ 1000000000 * q := Int.mul_ediv_self_le (Int.ne_of_gt hr)
  have h2 : 1000000000 * q < rate * (1000000000 * q / rate) + rate := Int.lt_mul_ediv_self_add hr
  have h3 : rate * 100 ≤ rate * (1000000000 * q / rate) := Int.mul_le_mul_of_nonneg_left h100 (Int.le_of_lt hr)
  generalize rate * (1000000000 * q / rate) = x at h1 h2 h3 ⊢
  omega

theorem search_sound (rate : Int) : ∀ (n : Nat) (q q' fi : Int), 1 ≤ q → searchFrom rate n q = some (q', fi) →
    q ≤ q' ∧ q' < 2^50 ∧ 0 < fi ∧ fi = 1000000000 * q' / rate ∧ within q' fi rate = true := by
  intro n
  induction n with
  | zero => intro q q' fi _ h; simp [searchFrom] at h
  | succ n ih =>
    intro q q' fi hq h
    unfold searchFrom at h
    by_cases hlt : q < 2^50
    · simp only [hlt, if_true] at h
      have hnx := nextQ_bounds q hq
      by_cases hz : 1000000000 * q / rate ≤ 0
      · simp only [hz, if_true] at h
        have := ih (nextQ q) q' fi (by omega) h
        exact ⟨by omega, this.2⟩
      · simp only [hz, if_false] at h
        by_cases hw : within q (1000000000 * q / rate) rate = true
        · simp only [hw, if_true, Option.some.injEq, Prod.mk.injEq] at h
          obtain ⟨h1, h2⟩ := h
          subst h1; subst h2
          exact ⟨Int.le_refl _, hlt, by omega, rfl, hw⟩
        · simp only [hw, if_false] at h
          have := ih (nextQ q) q' fi (by omega) h
          exact ⟨by omega, this.2⟩
    · simp only [hlt, if_false] at h; exact absurd h (by simp)

/-- the first quantum that certainly passes: `⌈100·rate/10⁹⌉` -/
def qEnough (rate : Int) : Int := (100 * rate + 1000000000 - 1) / 1000000000

theorem fi_ge_of_q_ge (rate q : Int) (hr : 0 < rate) (hq : qEnough rate ≤ q) : 100 ≤ 1000000000 * q / rate := by
  unfold qEnough at hq
  have : 100 * rate ≤ 1000000000 * q := by omega
  exact (Int.le_ediv_iff_mul_le hr).2 this

theorem search_some (rate : Int) (hr : 0 < rate) (hT : 2 * qEnough rate + 2 < 2^50) :
    ∀ (n : Nat) (q : Int), 1 ≤ q → q ≤ 2 * qEnough rate + 2 → 1 ≤ n → qEnough rate + 1 ≤ q + n →
      (searchFrom rate n q).isSome = true := by
  intro n
  induction n with
  | zero => intro q _ _ h; omega
  | succ n ih =>
    intro q hq hqle _ hfuel
    unfold searchFrom
    have hlt : q < 2^50 := by omega
    simp only [hlt, if_true]
    have hnx := nextQ_bounds q hq
    by_cases hge : qEnough rate ≤ q
    · have h100 := fi_ge_of_q_ge rate q hr hge
      have hw := within_of_fi_ge q rate hr (by omega) h100
      have hz : ¬ (1000000000 * q / rate ≤ 0) := by omega
      simp only [hz, if_false, hw, if_true, Option.isSome_some]
    · have hn1 : 1 ≤ n := by omega
      have hrec := ih (nextQ q) (by omega) (by omega) hn1 (by omega)
      by_cases hz : 1000000000 * q / rate ≤ 0
      · simp only [hz, if_true]; exact hrec
      · simp only [hz, if_false]
        by_cases hw : within q (1000000000 * q / rate) rate = true
        · simp only [hw, if_true, Option.isSome_some]
        · simp only [hw, if_false]; exact hrec

/-- **C19 (the constructor never panics for a rate `MakeValve` can pass).** -/
theorem c19_search_total (rate : Int) (h1 : 1 ≤ rate) (hcap : rate ≤ 2^34) : ∃ q fi, search rate = some (q, fi) := by
  have hT : qEnough rate ≤ 1718 := by unfold qEnough; omega
  have hT0 : 0 ≤ qEnough rate := by unfold qEnough; omega
  have := search_some rate (by omega) (by omega) 4000 1 (by omega) (by omega) (by omega) (by omega)
  unfold search
  cases h : searchFrom rate 4000 1 with
  | none => simp [h] at this
  | some p => exact ⟨p.1, p.2, rfl⟩

/-- **C19 (every bucket `MakeValve` makes is one `c19_refill_fits` speaks about).** For a rate between 1 and the cap read
from the source, the pair the search returns is positive and its real rate is at most 1 % above the rate. -/
theorem c19_made_buckets_fit (rate q fi : Int) (h1 : 1 ≤ rate) (h : search rate = some (q, fi)) :
    0 < q ∧ 0 < fi ∧ q * 100000000000 ≤ 101 * rate * fi := by
  have hs := search_sound rate 4000 1 q fi (by omega) h
  obtain ⟨hq, _, hfi, _, hw⟩ := hs
  rw [within_iff] at hw
  refine ⟨by omega, hfi, ?_⟩
  have : 101 * rate * fi = 101 * (rate * fi) := by ac_rfl
  rw [this]
  generalize rate * fi = x at hw ⊢
  omega

/-- the search on concrete rates (what the real constructor chose, as the harness reads it from the bucket) -/
example : search 1 = some (1, 1000000000) ∧ search 1000 = some (1, 1000000) ∧ search 123457 = some (1, 8099) ∧
    search (2^34) = some (86, 5) := by
  set_option maxRecDepth 100000 in decide

end C19

/-! ## "let through" is not "sent": reservations of a session that is closed

`c19_not_starved` counts what the bucket has LET THROUGH. A turn at the bucket (`txWait`) deducts its tokens at once and
cannot hand them back; a sender whose session is closed while it waits for its turn sends nothing. In the pinned tree every
sender of a session reserved at once (`send` began with `txWait`, before it looked at the switchboard): with `K` waiting
senders the user's other session waited behind `K` frames' worth of tokens that were never used — the literal clause ("the
bytes the server sends ... a backlogged sender is not held below that rate") fails for bytes SENT
(`c19_sent_lower_full`, `c19_burnt_tokens_witness`; the fourth red-team round's finding, ./check C19 scenario c19burnt.go).
Since /repo's fix the senders of a session take their turns one at a time and none once the switchboard is broken
(`Gen.Valve.txWaitOneAtATime`: a channel of capacity one around the broken test and the wait, nothing else inside): a
closed session leaves at most ONE reservation behind, and `c19_sent_lower_bounded` gives the clause with that slack. -/
namespace C19

/-- the property's lower clause at full strength, about bytes SENT: among the requests `(tick, count, sent?)` of any
history on a bucket that starts full, whenever some sender whose frame will be sent is still waiting at tick `t`, the
bytes sent up to `t` exceed `cap + q·t − M − (what was let through for frames that were not sent)` WITHOUT that last
term -/
def c19_sent_lower_full (cap q : Int) : Prop :=
  ∀ (reqs : List (Int × Int × Bool)) (M t : Int), (∀ r ∈ reqs, 0 < r.2.1 ∧ r.2.1 ≤ M) → 0 ≤ t →
    let rel := TB.run cap q ⟨cap, 0⟩ (reqs.map (fun r => (r.1, r.2.1)))
    (∃ p ∈ rel.zip reqs, p.2.2.2 = true ∧ t < p.1.1) →
    cap + q * t - M < ((rel.zip reqs).filter (fun p => p.2.2.2 && decide (p.1.1 ≤ t))).foldl (fun a p => a + p.1.2) 0

/-- five writers of a session reserve 100 tokens each at tick 0 (capacity 100, one token per tick); the session is closed
at tick 1, so only the first frame is sent; the user's other session asks for 10 tokens at tick 1 and is let through at
tick 410: at tick 300 it is still waiting, `cap + q·t − M = 300`, and 100 bytes have been sent -/
theorem c19_burnt_tokens_witness : ¬ c19_sent_lower_full 100 1 := by
  intro h
  have := h [(0, 100, true), (0, 100, false), (0, 100, false), (0, 100, false), (0, 100, false), (1, 10, true)] 100 300
    (by decide) (by decide)
  revert this
  decide

/-- the source takes the turns one at a time -/
theorem gen_turnstile : Gen.Valve.txWaitOneAtATime = true ∧ Gen.Valve.txWaitBeforeWrite = true := by decide

/-- **C19 (lower clause for bytes sent, with the slack the turnstile leaves).** Whatever is let through is either sent or
belongs to a sender whose session was closed while it waited; if those unsent reservations add up to at most `burnt`
(one frame, `≤ M`, per session closed so far), the single backlogged sender of `c19_not_starved` has been SENT more than
`cap + q·t − M − burnt` by every tick `t` at which it still waits. -/
theorem c19_sent_lower_bounded (cap q M burnt sent : Int) (hq : 0 < q) (hqc : q ≤ cap + 1) (cs : List Int)
    (hcs : ∀ c ∈ cs, 0 < c ∧ c ≤ M) (t : Int) (ht : 0 ≤ t)
    (hp : ∃ x ∈ runBL cap q ⟨cap, 0⟩ 0 cs, t < x.1)
    (hsent : releasedBy t (runBL cap q ⟨cap, 0⟩ 0 cs) - burnt ≤ sent) :
    cap + q * t - M - burnt < sent := by
  have := c19_not_starved cap q M hq hqc cs hcs t ht hp
  omega

/-- what the bucket answers in that history: release ticks 0, 100, 200, 300, 400 for the closed session's frames, 410 for the other session -/
example : TB.run 100 1 ⟨100, 0⟩ [(0, 100), (0, 100), (0, 100), (0, 100), (0, 100), (1, 10)] =
    [(0, 100), (100, 100), (200, 100), (300, 100), (400, 100), (410, 10)] := by decide

end C19
