import CloakModel.Model.FirstPacket
import CloakModel.Lemmas.Framing
import CloakModel.Lemmas.FirstPacketSpec

/-! # C09 — Unauthenticated peers see only the redirect target, byte for byte

(1) bridging lemmas about the extracted terms of `readFirstPacket` / `connReadLine` / `dispatchConnection`
(`Gen.FirstPacket.*`); (2) `readFirstPacket_flat`: the executable model over ANY chunking of the peer's stream
equals the flat specification `FPS.fpFlat` of the concatenated stream (segmentation independence — built on the
`readFull` lemma shared with C05); (3) the property theorems `c09_exact`, `c09_complete_redirects`
(+ `c09_close_only_iff_ran_out`, `c09_prefix_stable`), `c09_silent`, `c09_total`. -/
set_option linter.unusedSimpArgs false
set_option linter.unusedVariables false

/-- closes `extractedBoolTerm = true ↔ arithmetic`, whatever Boolean shape the Go condition has -/
macro "gen_bool9" : tactic => `(tactic|
  (simp only [Bool.and_eq_true, Bool.or_eq_true, Bool.not_eq_true', decide_eq_true_eq, decide_eq_false_iff_not]; omega))

namespace C09
open Rec FP FPS Gen.FirstPacket

/-! ## 1. Extracted facts mean what the proofs need -/

theorem gen_buf : bufLen = 3000 ∧ firstPacketSize = 3000 := by decide

theorem gen_first : fpFirstFull = true ∧ fpFirstLo 0 0 = 0 ∧ sliceLen (fpFirstLo 0 0) (fpFirstHi 0 0) = 1 := by decide

theorem gen_bytes : fpTLSByte = 22 ∧ fpWSByte = 71 := by decide

/-- the header read lands at `bufOffset` (= 1) and fills up to the record-layer length 5 -/
theorem gen_hdr : fpHdrFull = true ∧ fpInitOffset = 1 ∧ fpRecordLayerLength = 5 ∧ fpHdrLo fpInitOffset 0 = fpInitOffset ∧
    sliceLen (fpHdrLo fpInitOffset 0) (fpHdrHi fpInitOffset 0) = 4 := by decide

theorem gen_len : fpLenLo.toNat = 3 ∧ fpLenHi.toNat = 5 ∧ sliceLen fpLenLo fpLenHi = 2 := by decide

theorem gen_oversize (d b : Nat) : fpOversize (d : Int) (b : Int) = true ↔ b < d + 5 := by
  unfold fpOversize; gen_bool9

/-- the body read lands right after the header (offset 5) and is `dataLength` long -/
theorem gen_body (d : Nat) : fpBodyFull = true ∧ fpBodyLo fpInitOffset (d : Int) = 5 ∧
    sliceLen (fpBodyLo fpInitOffset (d : Int)) (fpBodyHi fpInitOffset (d : Int)) = d := by
  refine ⟨by decide, ?_, ?_⟩
  · unfold fpBodyLo; omega
  · unfold sliceLen fpBodyLo fpBodyHi; omega

theorem gen_crl_loop (i n : Nat) : crlLoop (i : Int) (n : Int) = true ↔ i < n := by
  unfold crlLoop; gen_bool9

/-- `connReadLine`: one byte per iteration with `io.ReadFull`, into `buf[i]`; newline is 10; returns `i+1` -/
theorem gen_crl (i : Nat) : crlReadFull = true ∧ crlInit = 0 ∧ crlReadLo (i : Int) = i ∧
    sliceLen (crlReadLo (i : Int)) (crlReadHi (i : Int)) = 1 ∧ byteOf crlNewline = 10 ∧
    (crlRetOnNewline (i : Int)).toNat = i + 1 ∧ crlReturns = true := by
  refine ⟨by decide, by decide, ?_, ?_, by decide, ?_, by decide⟩
  · unfold crlReadLo; omega
  · unfold sliceLen crlReadLo crlReadHi; omega
  · unfold crlRetOnNewline; omega

theorem gen_term : fpTerminator.map UInt8.ofNat = [13, 10] := by decide

/-- `redirOnErr` / `conn.Close()` of every exit of `readFirstPacket`: a read error closes and does not redirect;
oversize record, full buffer and unrecognised first byte keep the connection and redirect -/
theorem gen_redir :
    fpFirstErrRedir = false ∧ fpHdrErrRedir = false ∧ fpBodyErrRedir = false ∧ fpLineErrRedir = false ∧
    fpFirstErrCloses = true ∧ fpHdrErrCloses = true ∧ fpBodyErrCloses = true ∧ fpLineErrCloses = true ∧
    fpOversizeRedir = true ∧ fpLineFullRedir = true ∧ fpDefaultRedir = true ∧
    fpOversizeKeepsConn = true ∧ fpLineFullKeepsConn = true ∧ fpDefaultNoRead = true := by decide

/-- shape of `readFirstPacket`: three direct reads; `switch buf[0]` with exactly TLS / WebSocket / default;
`bufOffset += i` after header, body and every line; the line loop; final `return bufOffset, transport, true, nil`;
deadline set and cleared -/
theorem gen_shape :
    fpReads = 3 ∧ fpSwitchShape = true ∧ fpOffsetAdds = 3 ∧ fpLineLoopShape = true ∧ fpFinalReturn = true ∧
    fpDeadline = true ∧ dcFirstPacketTimeout = 15000000000 := by decide

/-- `dispatchConnection`: `data := buf[:i]`; every rejection branch is exactly `goWeb(); return`; a first-packet error
redirects iff `redirOnErr` and otherwise closes; the admin branch returns; the branches come in the modelled order and
nothing outside the admin branch calls `finishHandshake`/`conn.Write` before the last rejection branch -/
theorem gen_actions :
    dcDataIsConsumedPrefix = true ∧ dcReadErrRedirAction = 1 ∧ dcReadErrElseAction = 2 ∧
    dcAuthErrAction = 1 ∧ dcObfsErrAction = 1 ∧ dcBadMethodAction = 1 ∧ dcBadUserAction = 1 ∧
    dcAdminReturns = true ∧ dcBranchOrder = true ∧ dcQuietBeforeRejections = true ∧ dcPeerWrites = 0 := by decide

/-- `goWeb`: dial, ONE `webConn.Write`, of exactly `data`, then the two `common.Copy` goroutines; it never writes to the peer -/
theorem gen_goweb (n : Nat) :
    goWebTargetWrites = 1 ∧ goWebShape = true ∧ goWebPeerWrites = 0 ∧ goWebDeadlinesSet = 0 ∧
    (goWebWriteLo (n : Int)).toNat = 0 ∧ (goWebWriteHi (n : Int)).toNat = n := by
  refine ⟨by decide, by decide, by decide, by decide, ?_, ?_⟩
  · unfold goWebWriteLo; omega
  · unfold goWebWriteHi; omega

/-- the hand-written parsers start with `defer func(){ if recover() != nil { err = … } }()` on a named result;
`parseExtensions` may instead rely on the guard of `parseClientHello` when that is its only caller -/
theorem gen_recover : recover_parseKeyShare = true ∧ recover_parseClientHello = true ∧
    (recover_parseExtensions = true ∨ parseExtensionsOnlyUnderParseClientHello = true) := by
  decide

theorem goWebWrite_id (data : Bytes) : goWebWrite data = data := by
  unfold goWebWrite
  rw [(gen_goweb data.length).2.2.2.2.1, (gen_goweb data.length).2.2.2.2.2]
  simp

/-! ## 2. The chunked model equals the flat specification -/

theorem readFull_one {cs : Chunks} :
    (cs.flatten = [] → readFull 1 cs = none) ∧
    (∀ x t, cs.flatten = x :: t → ∃ rest, readFull 1 cs = some ([x], rest) ∧ rest.flatten = t) := by
  constructor
  · intro h
    exact (readFull_spec cs 1).2 (by rw [h]; decide)
  · intro x t h
    obtain ⟨rest, h1, h2⟩ := (readFull_spec cs 1).1 (by rw [h]; simp)
    refine ⟨rest, ?_, ?_⟩
    · rw [h1, h]; rfl
    · rw [h2, h]; rfl

theorem wsScan_flat : ∀ (fuel ls : Nat) (data : Bytes) (cs : Chunks), 3000 < fuel + data.length → ls ≤ data.length →
    (wsScan fuel ls data cs).1 = (wsFlat ls data cs.flatten).1 ∧
    (wsScan fuel ls data cs).2.flatten = (wsFlat ls data cs.flatten).2 := by
  intro fuel
  induction fuel with
  | zero =>
    intro ls data cs hf hls
    have hge : ¬ data.length < 3000 := by omega
    unfold wsScan
    rw [gen_redir.2.2.2.2.2.2.2.2.2.1]
    cases hcs : cs.flatten with
    | nil => unfold wsFlat; simp [hge]
    | cons b t => unfold wsFlat; simp [hge]
  | succ fuel ih =>
    intro ls data cs hf hls
    unfold wsScan
    simp only
    have hloop : crlLoop ((data.length - ls : Nat) : Int) ((bufLen - ls : Nat) : Int) = true ↔ data.length < 3000 := by
      rw [gen_crl_loop, gen_buf.1]; omega
    obtain ⟨hfull, _, _, hone, hnl, hret, _⟩ := gen_crl (data.length - ls)
    by_cases hlt : data.length < 3000
    · rw [if_pos (hloop.2 hlt), hfull, hone]
      unfold readWith
      simp only [if_true]
      cases hcs : cs.flatten with
      | nil =>
        rw [readFull_one.1 hcs]
        unfold wsFlat
        simp [hlt, closeOut, gen_redir.2.2.2.1, gen_redir.2.2.2.2.2.2.2.1]
      | cons x t =>
        obtain ⟨rest, hr, hrest⟩ := readFull_one.2 x t hcs
        rw [hr]
        simp only
        rw [hnl, hret, gen_term]
        unfold wsFlat
        rw [if_pos hlt]
        by_cases hx : x = 10
        · subst hx
          simp only [if_true]
          have htake : ((data ++ [10]).drop ls).take (data.length - ls + 1) = (data ++ [10]).drop ls := by
            apply List.take_of_length_le; simp; omega
          rw [htake]
          by_cases hterm : (data ++ [10]).drop ls = [13, 10]
          · rw [if_pos hterm, if_pos hterm]; exact ⟨rfl, hrest⟩
          · rw [if_neg hterm, if_neg hterm]
            have := ih (data ++ [10]).length (data ++ [10]) rest (by simp; omega) (Nat.le_refl _)
            rw [hrest] at this
            simpa using this
        · have hne : ¬ ([x] = [(10 : UInt8)]) := by simpa using hx
          rw [if_neg hne, if_neg hx]
          have := ih ls (data ++ [x]) rest (by simp; omega) (by simp; omega)
          rw [hrest] at this
          exact this
    · have hnl' : ¬ crlLoop ((data.length - ls : Nat) : Int) ((bufLen - ls : Nat) : Int) = true := fun h => hlt (hloop.1 h)
      rw [if_neg hnl', gen_redir.2.2.2.2.2.2.2.2.2.1]
      cases hcs : cs.flatten with
      | nil => unfold wsFlat; simp [hlt]
      | cons b t => unfold wsFlat; simp [hlt]

theorem declaredLen_eq (s : Bytes) (h : 5 ≤ s.length) : FP.declaredLen (s.take 5) = specLen s := by
  unfold FP.declaredLen specLen
  obtain ⟨h3, h5, h2⟩ := gen_len
  rw [h3, h5, h2]
  have : (s.take 5).length = 5 := by simp; omega
  simp only [this, Nat.sub_self, List.replicate_zero, List.append_nil]
  congr 1
  rw [List.drop_take]
  simp [List.take_take]

theorem uint8_eq_of_toNat (b : UInt8) (n : Nat) (hn : n < 256) : ((b.toNat : Int) = (n : Int)) ↔ b = UInt8.ofNat n := by
  constructor
  · intro h
    have : b.toNat = n := by omega
    rw [← this]; simp
  · intro h; subst h; simp; omega

/-- **Segmentation independence of the first-packet reader**: on any chunking, the executable model (built from the
extracted terms) returns what the flat specification returns on the concatenated stream, and leaves the same bytes. -/
theorem readFirstPacket_flat (cs : Chunks) :
    (readFirstPacket cs).1 = (fpFlat cs.flatten).1 ∧ (readFirstPacket cs).2.flatten = (fpFlat cs.flatten).2 := by
  unfold readFirstPacket
  obtain ⟨hF, _, h1⟩ := gen_first
  rw [hF, h1]
  unfold readWith
  simp only [if_true]
  cases hcs : cs.flatten with
  | nil =>
    rw [readFull_one.1 hcs]
    simp [fpFlat, closeOut, gen_redir.1, gen_redir.2.2.2.2.1]
  | cons b t =>
    obtain ⟨rest, hr, hrest⟩ := readFull_one.2 b t hcs
    rw [hr]
    simp only
    obtain ⟨hT, hW⟩ := gen_bytes
    obtain ⟨hHF, hoff, _, _, h4⟩ := gen_hdr
    rw [hT, hW]
    have e22 : ((b.toNat : Int) = 22) ↔ b = 22 := uint8_eq_of_toNat b 22 (by decide)
    have e71 : ((b.toNat : Int) = 71) ↔ b = 71 := uint8_eq_of_toNat b 71 (by decide)
    unfold fpFlat
    simp only
    by_cases hb : b = 22
    · rw [if_pos (e22.2 hb), if_pos hb, hHF, h4]
      simp only [if_true]
      unfold tlsFlat
      cases hr2 : readFull 4 rest with
      | none =>
        have := readFull_none hr2
        rw [hrest] at this
        have hl : (b :: t).length < 5 := by simp; omega
        rw [if_pos hl, hrest]
        simp [closeOut, gen_redir.2.1, gen_redir.2.2.2.2.2.1]
      | some pr =>
        obtain ⟨h, rest2⟩ := pr
        obtain ⟨hlen, hh, hrest2⟩ := readFull_some hr2
        rw [hrest] at hlen hh hrest2
        have hl : ¬ (b :: t).length < 5 := by simp; omega
        rw [if_neg hl]
        simp only
        have hhdr : [b] ++ h = (b :: t).take 5 := by rw [hh]; rfl
        have hdl : FP.declaredLen ([b] ++ h) = specLen (b :: t) := by
          rw [hhdr]; exact declaredLen_eq _ (by simp; omega)
        rw [hdl, gen_buf.1]
        by_cases hov : 3000 < specLen (b :: t) + 5
        · rw [if_pos ((gen_oversize _ _).2 hov), if_pos hov, gen_redir.2.2.2.2.2.2.2.2.1, hhdr]
          refine ⟨rfl, ?_⟩
          rw [hrest2]; rfl
        · have hno : ¬ fpOversize ((specLen (b :: t) : Nat) : Int) ((3000 : Nat) : Int) = true := fun h' => hov ((gen_oversize _ _).1 h')
          rw [if_neg hno, if_neg hov, (gen_body 0).1, (gen_body _).2.2]
          simp only [if_true]
          cases hr3 : readFull (specLen (b :: t)) rest2 with
          | none =>
            have h3 := readFull_none hr3
            rw [hrest2, List.length_drop] at h3
            have hl2 : (b :: t).length < 5 + specLen (b :: t) := by simp; omega
            rw [if_pos hl2]
            simp only [closeOut, gen_redir.2.2.1, gen_redir.2.2.2.2.2.2.1]
            refine ⟨?_, rfl⟩
            congr 1
            rw [hhdr, hrest2]
            have : List.drop 4 t = List.drop 5 (b :: t) := rfl
            rw [this, List.take_append_drop]
          | some pr3 =>
            obtain ⟨body, rest3⟩ := pr3
            obtain ⟨hlen3, hbody, hrest3⟩ := readFull_some hr3
            rw [hrest2] at hlen3 hbody hrest3
            rw [List.length_drop] at hlen3
            have hl2 : ¬ (b :: t).length < 5 + specLen (b :: t) := by simp; omega
            rw [if_neg hl2]
            simp only
            refine ⟨?_, ?_⟩
            · congr 1
              rw [hhdr, hbody]
              have : List.drop 4 t = List.drop 5 (b :: t) := rfl
              rw [this, ← List.take_add]
            · rw [hrest3]
              have : List.drop 4 t = List.drop 5 (b :: t) := rfl
              rw [this, List.drop_drop]
    · have n22 : ¬ ((b.toNat : Int) = 22) := fun h => hb (e22.1 h)
      rw [if_neg n22, if_neg hb]
      by_cases hw : b = 71
      · rw [if_pos (e71.2 hw), if_pos hw, hoff, gen_buf.1]
        have := wsScan_flat (3000 + 1) 1 [b] rest (by simp) (by simp)
        rw [hrest] at this
        exact this
      · have n71 : ¬ ((b.toNat : Int) = 71) := fun h => hw (e71.1 h)
        rw [if_neg n71, if_neg hw, gen_redir.2.2.2.2.2.2.2.2.2.2.1]
        exact ⟨rfl, hrest⟩

/-! ## 3. The property -/

/-- verdicts `dispatchConnection` can reach for a peer that is NOT a valid, fresh Cloak handshake from an authorised
user (the class C09 speaks about).  `sessErr` (an authorised user over its session cap) is outside that class. -/
def Rejecting : Verdict → Prop
  | .authFail | .obfsFail | .badMethod | .badUser => True
  | _ => False

theorem decide_rejecting (o : Out) (v : Verdict) (hv : Rejecting v) :
    decideAction o v = if o.err ≠ .ok ∧ o.redirOnErr = false then .close else .web := by
  obtain ⟨_, h1, h2, h3, h4, h5, h6, _⟩ := gen_actions
  unfold decideAction
  rw [h1, h2, h3, h4, h5, h6]
  by_cases he : o.err ≠ .ok
  · by_cases hr : o.redirOnErr = true
    · simp [he, hr, actionOfCode]
    · simp [he, hr, actionOfCode]
  · cases v <;> simp [Rejecting] at hv <;> simp [he, actionOfCode]

/-- for a rejected peer the action is `web` unless the stream ran out inside the first packet (then `close`) -/
theorem action_rejecting (cs : Chunks) (v : Verdict) (hv : Rejecting v) :
    decideAction (readFirstPacket cs).1 v = if (fpFlat cs.flatten).1.err = .readErr then .close else .web := by
  rw [decide_rejecting _ _ hv, (readFirstPacket_flat cs).1]
  have hc := fpFlat_close cs.flatten
  by_cases he : (fpFlat cs.flatten).1.err = .readErr
  · obtain ⟨_, _, _, hr, _⟩ := hc.1 he
    simp [he, hr]
  · have := (hc.2 he).1
    simp [he, this]

/-- what `goWeb` does at its two fault points: when the redirect target cannot be dialled it closes the peer conn; when
the first write to the target fails it closes the half-open target conn and the peer conn (and returns) -/
theorem gen_goweb_errors :
    goWebDialErrClosesPeer = true ∧ goWebWriteErrClosesPeer = true ∧ goWebWriteErrClosesTarget = true := by decide

theorem run_of_web (cs : Chunks) (v : Verdict) (evs : List Ev) (h : decideAction (readFirstPacket cs).1 v = .web) :
    run cs v .up evs = (.web, evs.foldl relayStep
      ⟨true, goWebWrite (readFirstPacket cs).1.data :: (readFirstPacket cs).2, [], true, false, false⟩) := by
  unfold run runWith; simp only; rw [h]

theorem run_of_close (cs : Chunks) (v : Verdict) (tg : Target) (evs : List Ev) (h : decideAction (readFirstPacket cs).1 v = .close) :
    run cs v tg evs = (.close, ⟨false, [], [], false, true, false⟩) := by
  unfold run runWith; simp only; rw [h]

theorem run_dial_fails (cs : Chunks) (v : Verdict) (evs : List Ev) (h : decideAction (readFirstPacket cs).1 v = .web) :
    run cs v .dialFails evs = (.close, ⟨true, [], [], false, true, false⟩) := by
  unfold run runWith; simp only; rw [h, gen_goweb_errors.1]; rfl

theorem run_write_fails (cs : Chunks) (v : Verdict) (evs : List Ev) (h : decideAction (readFirstPacket cs).1 v = .web) :
    run cs v .writeFails evs = (.close, ⟨true, [], [], false, true, true⟩) := by
  unfold run runWith; simp only; rw [h, gen_goweb_errors.2.1, gen_goweb_errors.2.2]; rfl

/-- **C09 (exactness).** For EVERY peer stream — any bytes, any length, cut into chunks anywhere, ending anywhere —
every rejecting verdict, every behaviour of the redirect target (up, refusing the dial, failing the first write) and
every later course of events (peer chunks, target chunks, either side ending its stream, each processed to quiescence):
* if the server relays (`web`; the target is up), the bytes written to the target are exactly the peer's stream: the
  consumed first packet, then what was already waiting, then every later peer chunk up to the first EOF — nothing added,
  dropped or reordered; and the bytes written to the peer are exactly the target's chunks up to the first EOF;
* otherwise the action is `close`: nothing at all is written to either side, the peer conn IS closed (never "neither
  relayed nor closed"); a target is dialled only if it then turns out to be unavailable, and a half-open target conn
  is closed too. -/
theorem c09_exact (cs : Chunks) (v : Verdict) (hv : Rejecting v) (tg : Target) (evs : List Ev) :
    (tg = .up ∧ (run cs v tg evs).1 = .web ∧
        (run cs v tg evs).2.toTarget.flatten = cs.flatten ++ (peerChunks (live evs)).flatten ∧
        (run cs v tg evs).2.toPeer = targetChunks (live evs) ∧ (run cs v tg evs).2.dialed = true) ∨
    ((run cs v tg evs).1 = .close ∧ (run cs v tg evs).2.toTarget = [] ∧ (run cs v tg evs).2.toPeer = [] ∧
        (run cs v tg evs).2.peerClosed = true ∧
        ((run cs v tg evs).2.dialed = true → tg ≠ .up ∧ (tg = .writeFails → (run cs v tg evs).2.targetClosed = true))) := by
  have ha := action_rejecting cs v hv
  have hfl := readFirstPacket_flat cs
  have hcons := fpFlat_conserve cs.flatten
  by_cases he : (fpFlat cs.flatten).1.err = .readErr
  · rw [if_pos he] at ha
    right; rw [run_of_close cs v tg evs ha]; simp
  · rw [if_neg he] at ha
    cases tg with
    | up =>
      left; rw [run_of_web cs v evs ha]
      obtain ⟨h1, h2, h3⟩ := relay_fold evs ⟨true, goWebWrite (readFirstPacket cs).1.data :: (readFirstPacket cs).2, [], true, false, false⟩ rfl
      refine ⟨rfl, rfl, ?_, ?_, h3⟩
      · rw [h1, goWebWrite_id, List.flatten_append, List.flatten_cons, hfl.1, hfl.2, hcons]
      · rw [h2]; rfl
    | dialFails => right; rw [run_dial_fails cs v evs ha]; simp
    | writeFails => right; rw [run_write_fails cs v evs ha]; simp

example : (run [[0x99, 1], [2]] .authFail .up [.target [7], .peer [3], .peerEOF, .target [8]]).2 =
    ⟨true, [[0x99], [1], [2], [3]], [[7]], false, true, true⟩ := by decide

/-- **C09 (close only when the stream ran out or the target is unavailable).** For a rejected peer the server closes
without relaying exactly when the peer's stream ended (EOF or 15 s of silence) inside the first record / request —
then the reader had consumed every byte the peer sent, fewer than 3000, and was still waiting for more — or the
redirect target could not be reached. -/
theorem c09_close_only_iff_ran_out (cs : Chunks) (v : Verdict) (hv : Rejecting v) (tg : Target) (evs : List Ev) :
    (run cs v tg evs).1 = .close ↔ ((fpFlat cs.flatten).1.err = .readErr ∨ tg ≠ .up) := by
  have ha := action_rejecting cs v hv
  by_cases he : (fpFlat cs.flatten).1.err = .readErr
  · rw [if_pos he] at ha; rw [run_of_close cs v tg evs ha]; simp [he]
  · rw [if_neg he] at ha
    cases tg with
    | up => rw [run_of_web cs v evs ha]; simp [he]
    | dialFails => rw [run_dial_fails cs v evs ha]; simp
    | writeFails => rw [run_write_fails cs v evs ha]; simp

theorem c09_ran_out_consumed_all (s : Bytes) (h : (fpFlat s).1.err = .readErr) :
    (fpFlat s).1.data = s ∧ (fpFlat s).2 = [] ∧ s.length < 3000 :=
  let ⟨a, b, c, _⟩ := (fpFlat_close s).1 h
  ⟨a, b, c⟩

/-- **C09 (redirect target unavailable: the peer is closed, never left hanging).** Whatever the peer sent and however a
rejected connection got as far as `goWeb`: if the redirect target cannot be dialled, or takes the connection and fails
the first write, the peer conn is closed without a byte having been written to it, and the half-open target conn is
closed as well — "relayed or just closed", nothing in between. -/
theorem c09_target_unavailable (cs : Chunks) (v : Verdict) (hv : Rejecting v) (tg : Target) (htg : tg ≠ .up) (evs : List Ev) :
    (run cs v tg evs).1 = .close ∧ (run cs v tg evs).2.peerClosed = true ∧ (run cs v tg evs).2.toPeer = [] ∧
    (run cs v tg evs).2.toTarget = [] ∧
    ((run cs v tg evs).2.dialed = true → tg = .writeFails → (run cs v tg evs).2.targetClosed = true) := by
  rcases c09_exact cs v hv tg evs with h | h
  · exact absurd h.1 htg
  · exact ⟨h.1, h.2.2.2.1, h.2.2.1, h.2.1, fun hd hw => (h.2.2.2.2 hd).2 hw⟩

/-- the pinned code (`goWeb` just `return`s at both fault points — the three facts are `false`): the connection of a
peer that sent an unrecognisable first byte is neither relayed nor closed when the target cannot be dialled, and when
the first write fails the target conn is left open as well -/
theorem c09_unavailable_pinned_witness :
    runWith false false false [[0x99, 1, 2]] .authFail .dialFails [] = (.drop, ⟨true, [], [], false, false, false⟩) ∧
    runWith false false false [[0x99, 1, 2]] .authFail .writeFails [] = (.drop, ⟨true, [], [], false, false, false⟩) := by
  decide

example : run [[0x99, 1, 2]] .authFail .dialFails [.peer [1]] = (.close, ⟨true, [], [], false, true, false⟩) ∧
    run [[0x99, 1, 2]] .authFail .writeFails [] = (.close, ⟨true, [], [], false, true, true⟩) := by decide

/-- **C09 (prefix stability).** If the first-packet reader comes to a verdict on a stream `p` (complete record or
request, oversize header, over-long line, unrecognisable first byte), then for every continuation `t` and every
chunking of `p ++ t` the server relays (to a target that is up), having consumed exactly the same first packet. -/
theorem c09_prefix_stable (p t : Bytes) (cs : Chunks) (v : Verdict) (hv : Rejecting v) (evs : List Ev)
    (hp : (fpFlat p).1.err ≠ .readErr) (hcs : cs.flatten = p ++ t) :
    (run cs v .up evs).1 = .web ∧ (readFirstPacket cs).1 = (fpFlat p).1 := by
  have hst := fpFlat_stable p t hp
  have hne : ¬ (fpFlat cs.flatten).1.err = .readErr := by rw [hcs, hst]; exact hp
  refine ⟨?_, ?_⟩
  · rcases c09_exact cs v hv .up evs with h | h
    · exact h.2.1
    · exact absurd ((c09_close_only_iff_ran_out cs v hv .up evs).1 h.1) (by simp [hne])
  · rw [(readFirstPacket_flat cs).1, hcs, hst]

/-- **C09 (complete first packets are always relayed).** For a rejected peer, on ANY chunking, the server relays
(never "close only" — the redirect target being up) as soon as the peer's stream `s`
(a) starts with a byte other than 0x16 / 0x47, or
(b) starts with a 0x16 record header declaring more than fits the 3000-byte buffer, or
(c) contains a complete 0x16 record, or
(d) is at least 3000 bytes long (over-long request line / header block — whatever it starts with), or
(e) extends any stream on which the reader already came to a verdict (e.g. a request up to its empty line). -/
theorem c09_complete_redirects (cs : Chunks) (v : Verdict) (hv : Rejecting v) (evs : List Ev) :
    let s := cs.flatten
    ((∃ b t, s = b :: t ∧ b ≠ 22 ∧ b ≠ 71) → (run cs v .up evs).1 = .web) ∧
    ((∃ t, s = 22 :: t ∧ 5 ≤ s.length ∧ 3000 < specLen s + 5) → (run cs v .up evs).1 = .web) ∧
    ((∃ t, s = 22 :: t ∧ 5 + specLen s ≤ s.length) → (run cs v .up evs).1 = .web) ∧
    (3000 ≤ s.length → (run cs v .up evs).1 = .web) ∧
    (∀ p t, s = p ++ t → (fpFlat p).1.err ≠ .readErr → (run cs v .up evs).1 = .web) := by
  have key : ¬ (fpFlat cs.flatten).1.err = .readErr → (run cs v .up evs).1 = .web := by
    intro hne
    rcases c09_exact cs v hv .up evs with h | h
    · exact h.2.1
    · exact absurd ((c09_close_only_iff_ran_out cs v hv .up evs).1 h.1) (by simp [hne])
  refine ⟨?_, ?_, ?_, ?_, ?_⟩
  · rintro ⟨b, t, hs, h22, h71⟩
    apply key; rw [hs]; simp [fpFlat, h22, h71]
  · rintro ⟨t, hs, h5, hov⟩
    apply key
    have : fpFlat cs.flatten = tlsFlat cs.flatten := by rw [hs]; simp [fpFlat]
    rw [this]; unfold tlsFlat
    rw [if_neg (by omega), if_pos hov]; simp
  · rintro ⟨t, hs, hlen⟩
    apply key
    have : fpFlat cs.flatten = tlsFlat cs.flatten := by rw [hs]; simp [fpFlat]
    rw [this]; unfold tlsFlat
    by_cases hov : 3000 < specLen cs.flatten + 5
    · rw [if_neg (by omega), if_pos hov]; simp
    · rw [if_neg (by omega), if_neg hov, if_neg (by omega)]; simp
  · intro hlen
    apply key
    intro he
    have := (c09_ran_out_consumed_all _ he).2.2
    omega
  · intro p t hs hp
    exact (c09_prefix_stable p t cs v hv evs hp hs).1

/-- a complete HTTP request (its empty line reached) — with or without anything after it — and an over-long line -/
-- "GET /\r\nH:a\r\n\r\nB": complete at the empty line, "B" is left for the relay;  "G\n\n": LF-only never completes
example : (fpFlat [71, 69, 84, 32, 47, 13, 10, 72, 58, 97, 13, 10, 13, 10, 66]).1.err = .ok ∧
    (fpFlat [71, 69, 84, 32, 47, 13, 10, 72, 58, 97, 13, 10, 13, 10, 66]).2 = [66] := by decide
example : (fpFlat [71, 10, 10]).1.err = .readErr := by decide
example : (readFirstPacket [[22, 3], [1, 0, 2, 9], [9, 7]]).1 = ⟨[22, 3, 1, 0, 2, 9, 9], .tls, true, .ok, false⟩ := by decide

/-! ### "the peer receives exactly the bytes the target replies with" — and the peer's half close

`c09_exact` delivers the target's chunks *up to the first EOF of either side*.  The property says more: the peer
receives the bytes the target replies with — all of them, for all peer streams and all response scripts of the target,
including a peer that sends its request, ends its sending direction (TCP FIN, `shutdown(SHUT_WR)`) and then reads the
answer.  The code does not do that: `common.Copy` closes BOTH conns as soon as ONE direction sees EOF
(`relayStep`), so whatever the target sends after the peer's FIN is lost. -/

/-- the full statement: whenever the server relays, the peer is sent exactly what the target sends before the target
ends its own stream -/
def c09_reply_full : Prop :=
  ∀ (cs : Chunks) (v : Verdict) (evs : List Ev), Rejecting v → (run cs v .up evs).1 = .web →
    (run cs v .up evs).2.toPeer = targetReply evs

/-- **C09 (reply, partial).** The full statement holds for every course of events in which the peer does not end its
sending direction before the target has ended its stream (it may of course end it afterwards, or never). -/
theorem c09_reply_partial (cs : Chunks) (v : Verdict) (hv : Rejecting v) (evs : List Ev)
    (hnh : peerEndsFirst evs = false) (hw : (run cs v .up evs).1 = .web) :
    (run cs v .up evs).2.toPeer = targetReply evs := by
  rcases c09_exact cs v hv .up evs with h | h
  · rw [h.2.2.2.1, live_reply evs hnh]
  · rw [h.1] at hw; simp at hw

/-- **C09 (reply, witness).** The full statement is FALSE of the code: an unrecognisable first byte, then the peer's
FIN, then a one-byte reply of the target — the reply is not delivered (and both conns are closed by then). -/
theorem c09_reply_witness : ¬ c09_reply_full := by
  intro h
  have := h [[0x99]] .authFail [.peerEOF, .target [7]] (by simp [Rejecting]) (by decide)
  revert this
  decide

example : (run [[0x99]] .authFail .up [.peerEOF, .target [7]]).2 = ⟨true, [[0x99]], [], false, true, true⟩ ∧
    targetReply [.peerEOF, .target [7]] = [[7]] := by decide

theorem actionOfCode_ne_handshake (n : Nat) : actionOfCode n ≠ .handshake := by
  unfold actionOfCode; split <;> simp

theorem runWith_handshake (a b c : Bool) (cs : Chunks) (v : Verdict) (tg : Target) (evs : List Ev) :
    (runWith a b c cs v tg evs).1 = .handshake ↔ decideAction (readFirstPacket cs).1 v = .handshake := by
  unfold runWith; simp only
  cases hda : decideAction (readFirstPacket cs).1 v <;> cases tg <;> cases a <;> cases b <;> simp

/-- **C09 (silence).** The server answers in its own voice (`finishHandshake`) only for a complete first packet of an
admin or an admitted proxy user.  On every other path — any stream, chunking, verdict and later events — each chunk
written to the peer is one of the target's chunks, in order (or nothing is written at all); structurally: `goWeb` and
`dispatchConnection` contain no `conn.Write`, and nothing before the last rejection branch (outside the admin branch)
calls `finishHandshake`. -/
theorem c09_silent (cs : Chunks) (v : Verdict) (tg : Target) (evs : List Ev) :
    ((run cs v tg evs).1 = .handshake ↔ (readFirstPacket cs).1.err = .ok ∧ (v = .admin ∨ v = .proxy)) ∧
    ((run cs v tg evs).1 ≠ .handshake →
        (run cs v tg evs).2.toPeer = targetChunks (live evs) ∨ (run cs v tg evs).2.toPeer = []) ∧
    (goWebPeerWrites = 0 ∧ dcPeerWrites = 0 ∧ dcQuietBeforeRejections = true ∧ dcAdminReturns = true) := by
  have hd : ∀ o : Out, decideAction o v = .handshake ↔ o.err = .ok ∧ (v = .admin ∨ v = .proxy) := by
    intro o
    unfold decideAction
    by_cases he : o.err = .ok
    · cases v <;> simp [he, actionOfCode_ne_handshake]
    · by_cases hr : o.redirOnErr = true <;> simp [he, hr, actionOfCode_ne_handshake]
  refine ⟨?_, ?_, by decide⟩
  · unfold run; rw [runWith_handshake]; exact hd _
  · intro _
    cases hda : decideAction (readFirstPacket cs).1 v with
    | web =>
      cases tg with
      | up =>
        left
        rw [run_of_web cs v evs hda]
        have := (relay_fold evs ⟨true, goWebWrite (readFirstPacket cs).1.data :: (readFirstPacket cs).2, [], true, false, false⟩ rfl).2.1
        rw [this]; rfl
      | dialFails => right; unfold run runWith; simp only; rw [hda]
      | writeFails => right; unfold run runWith; simp only; rw [hda]
    | _ =>
      right
      unfold run runWith; simp only; rw [hda]

/-- **C09 (total — as far as this model goes).** `readFirstPacket`'s model is a total function with an explicit outcome
for every stream (no buffer index can leave `[0, 3000]`: `c09_consumed_bounded`), the decision for a rejected peer is always
`web` or `close` — whatever the redirect target does: never "neither relayed nor closed", never an unclassified branch —
and the `recover()` guards that turn out-of-range slicing in the hand-written ClientHello parsers into an error are in
place (`gen_recover`). -/
theorem c09_total (cs : Chunks) (v : Verdict) (hv : Rejecting v) (tg : Target) (evs : List Ev) :
    ((run cs v tg evs).1 = .web ∨ ((run cs v tg evs).1 = .close ∧ (run cs v tg evs).2.peerClosed = true)) ∧
    (readFirstPacket cs).1.data.length ≤ 3000 ∧
    (recover_parseKeyShare = true ∧ recover_parseClientHello = true ∧
      (recover_parseExtensions = true ∨ parseExtensionsOnlyUnderParseClientHello = true)) := by
  refine ⟨?_, ?_, gen_recover⟩
  · rcases c09_exact cs v hv tg evs with h | h
    · exact Or.inl h.2.1
    · exact Or.inr ⟨h.1, h.2.2.2.1⟩
  · rw [(readFirstPacket_flat cs).1]; exact fpFlat_bound _

end C09

#print axioms C09.readFirstPacket_flat
#print axioms C09.c09_exact
#print axioms C09.c09_complete_redirects
#print axioms C09.c09_silent
#print axioms C09.c09_total
#print axioms C09.c09_target_unavailable
#print axioms C09.c09_reply_partial
#print axioms C09.c09_reply_witness
