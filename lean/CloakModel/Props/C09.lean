import CloakModel.Model.FirstPacket
namespace C09
theorem gen_structure : Gen.FirstPacket.fpReads = 3 := by decide
end C09
