import CloakModel.Props.C01
import CloakModel.Props.C04

/-! # End-to-end composition (C01 ∘ C04)

The receive side of C01 fed with REAL WIRE MESSAGES: every frame is encoded by the codec of C04 (any of
the four methods as a lawful cipher instance, any key, any admissible padding draw and random tail), the
network delivers the encoded messages of all streams in any global order, the receiver decodes each
message (`deobfuscate`), demultiplexes it and reassembles.  `c04_roundtrip` turns the run on wire
messages into the run on frames (`wire_sim`); `c01_prefix` / `c01_complete` finish. -/
set_option linter.unusedVariables false

namespace E2E
open Deliver Codec

/-- `m` is what the sending endpoint puts on the wire for data frame `f` of stream `sid` -/
def IsEnc (C : Crypto) (key : Bytes) (sid : Nat) (f : RB.Frame) (m : Bytes) : Prop :=
  ∃ (bufLen padDraw : Nat) (rnd : Bytes),
    let cf : Codec.Frame := ⟨sid, f.seq, 0, f.payload⟩
    sid < 2^32 ∧ f.seq < 2^64 ∧ 1 ≤ f.payload.length ∧ f.closing = false ∧
    (padDraw : Int) < Gen.Codec.padBound (tagLenOf C) ∧
    rnd.length = padLenOf cf padDraw + tagLenOf C ∧ C04.fitsBuf C cf bufLen padDraw ∧
    obfuscate C key cf bufLen padDraw rnd = .ok m

/-- non-vacuity of `IsEnc`: for every lawful cipher, key, stream id, data frame with a non-empty payload that fits the
send buffer, and admissible padding draw there IS such a wire message (this is `c04_roundtrip`'s first half) -/
theorem isEnc_exists (C : Crypto) (hL : Lawful C) (key : Bytes) (sid : Nat) (f : RB.Frame) (bufLen padDraw : Nat) (rnd : Bytes)
    (hsid : sid < 2^32) (hseq : f.seq < 2^64) (hpl : 1 ≤ f.payload.length) (hcl : f.closing = false)
    (hdraw : (padDraw : Int) < Gen.Codec.padBound (tagLenOf C))
    (hrnd : rnd.length = padLenOf ⟨sid, f.seq, 0, f.payload⟩ padDraw + tagLenOf C)
    (hbuf : C04.fitsBuf C ⟨sid, f.seq, 0, f.payload⟩ bufLen padDraw) : ∃ m, IsEnc C key sid f m := by
  obtain ⟨msg, hm, _⟩ := C04.c04_roundtrip C hL key ⟨sid, f.seq, 0, f.payload⟩ bufLen padDraw rnd hsid hseq hpl hdraw hrnd hbuf
  exact ⟨msg, bufLen, padDraw, rnd, hsid, hseq, hpl, hcl, hdraw, hrnd, hbuf, hm⟩

/-- `recvDataFromRemote`: decode; a message that does not decode is dropped (C11) -/
def recvMsg (C : Crypto) (key : Bytes) (t : Tbl) (m : Bytes) : Tbl :=
  match deobfuscate C key m with
  | .ok fr => gstep t (.deliver fr.sid ⟨fr.seq, fr.closing != 0, fr.payload⟩)
  | _ => t

/-- what happens at the receiving endpoint: the network hands over a message that the peer produced for
frame `f` of stream `sid`, or the application reads -/
inductive NEv
  | msg (sid : Nat) (f : RB.Frame) (m : Bytes)
  | read (sid : Nat) (k : Nat)

def NEv.ok (C : Crypto) (key : Bytes) : NEv → Prop
  | .msg sid f m => IsEnc C key sid f m
  | .read _ _ => True

def NEv.toG : NEv → GEv
  | .msg sid f _ => .deliver sid f
  | .read sid k => .read sid k

def recvStep (C : Crypto) (key : Bytes) (t : Tbl) : NEv → Tbl
  | .msg _ _ m => recvMsg C key t m
  | .read sid k => gstep t (.read sid k)

theorem recv_enc (C : Crypto) (hL : Lawful C) (key : Bytes) (sid : Nat) (f : RB.Frame) (m : Bytes)
    (h : IsEnc C key sid f m) (t : Tbl) : recvMsg C key t m = gstep t (.deliver sid f) := by
  obtain ⟨bufLen, padDraw, rnd, hsid, hseq, hpl, hcl, hdraw, hrnd, hbuf, hobf⟩ := h
  obtain ⟨msg, hm, hd⟩ := C04.c04_roundtrip C hL key ⟨sid, f.seq, 0, f.payload⟩ bufLen padDraw rnd hsid hseq hpl hdraw hrnd hbuf
  rw [hobf] at hm
  injection hm with hm
  subst hm
  unfold recvMsg
  rw [hd]
  obtain ⟨s, c, p⟩ := f
  simp only at hcl
  subst hcl
  rfl

/-- the run on wire messages is the run on the frames they encode -/
theorem wire_sim (C : Crypto) (hL : Lawful C) (key : Bytes) : ∀ (evs : List NEv) (t : Tbl),
    (∀ e ∈ evs, e.ok C key) → evs.foldl (recvStep C key) t = (evs.map NEv.toG).foldl gstep t := by
  intro evs
  induction evs with
  | nil => intro t _; rfl
  | cons e r ih =>
    intro t h
    simp only [List.foldl_cons, List.map_cons]
    have he := h e (by simp)
    have hstep : recvStep C key t e = gstep t e.toG := by
      cases e with
      | msg sid f m => exact recv_enc C hL key sid f m he t
      | read sid k => rfl
    rw [hstep]
    exact ih _ (fun x hx => h x (by simp [hx]))

/-- **End to end (completeness).** The sender wrote `writes` on stream `sid`; its frames (the numbered chunks)
were each encoded for the wire under ANY lawful cipher instance and key with ANY admissible padding; the
network delivered the encoded messages of all streams in ANY global order, interleaved with reads on any
streams; each of `sid`'s messages has arrived exactly once.  Then the receiver, decoding every message,
ends with bytes read ++ bytes buffered on `sid` = exactly the bytes written. -/
theorem c01_end_to_end (C : Crypto) (hL : Lawful C) (key : Bytes) (limit : Int) (hl : 1 ≤ unitOf limit)
    (writes : List Bytes) (sid : Nat) (evs : List NEv)
    (hok : ∀ e ∈ evs, e.ok C key)
    (hn : (writes.flatMap (chunks limit)).length < RB.W)
    (hsub : ∀ f ∈ C01.deliveredTo sid (evs.map NEv.toG), f ∈ framesOf limit writes)
    (hperm : ((C01.deliveredTo sid (evs.map NEv.toG)).map (·.seq)).Perm (List.range (writes.flatMap (chunks limit)).length)) :
    let sb := (evs.foldl (recvStep C key) tbl0) sid
    sb.out ++ sb.buf = writes.flatten := by
  intro sb
  show ((evs.foldl (recvStep C key) tbl0) sid).out ++ ((evs.foldl (recvStep C key) tbl0) sid).buf = _
  rw [wire_sim C hL key evs tbl0 hok]
  exact C01.c01_complete limit hl writes sid (evs.map NEv.toG) hn hsub hperm

/-- **End to end (every reachable state).** Any duplicate-free subset of `sid`'s messages has arrived so far:
the receiver holds an in-order prefix of the bytes written — nothing from another stream, nothing twice. -/
theorem c01_end_to_end_prefix (C : Crypto) (hL : Lawful C) (key : Bytes) (limit : Int) (hl : 1 ≤ unitOf limit)
    (writes : List Bytes) (sid : Nat) (evs : List NEv)
    (hok : ∀ e ∈ evs, e.ok C key)
    (hn : (writes.flatMap (chunks limit)).length < RB.W)
    (hsub : ∀ f ∈ C01.deliveredTo sid (evs.map NEv.toG), f ∈ framesOf limit writes)
    (hnd : ((C01.deliveredTo sid (evs.map NEv.toG)).map (·.seq)).Nodup) :
    let sb := (evs.foldl (recvStep C key) tbl0) sid
    ∃ m, m ≤ (writes.flatMap (chunks limit)).length ∧
      sb.out ++ sb.buf = ((writes.flatMap (chunks limit)).take m).flatten := by
  intro sb
  show ∃ m, m ≤ _ ∧ ((evs.foldl (recvStep C key) tbl0) sid).out ++ ((evs.foldl (recvStep C key) tbl0) sid).buf = _
  rw [wire_sim C hL key evs tbl0 hok]
  exact C01.c01_prefix limit hl writes sid (evs.map NEv.toG) hn hsub hnd

end E2E

#print axioms E2E.c01_end_to_end
#print axioms E2E.c01_end_to_end_prefix
