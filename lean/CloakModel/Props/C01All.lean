import CloakModel.Props.E2EWire
import CloakModel.Props.C01Deadline
import CloakModel.Props.C15

/-! Umbrella module of property C01: everything its check builds and audits (`lean_module` in `checks_d/C01.py`). -/
