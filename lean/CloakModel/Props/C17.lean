import CloakModel.Lemmas.LocksCore
import CloakModel.Lemmas.PanelInv

/-! # C17 — User bookkeeping never deadlocks and never loses track of a live session

Part 1 (no deadlock): the generic theorem `Locks.locks_rank_ordered_no_deadlock` instantiated with the lock
programs the extractor read from the CURRENT tree (`Gen.Panel.lockPrograms`, every control-flow path of every
bookkeeping operation, callees inlined) and the order Q < A < S. Rank-orderedness is decided on whatever was
extracted — not compared with an expected listing.

Part 2 (single record): every reachable state of the session-bookkeeping step model (`Model/Panel.lean`, with
the repair facts of the CURRENT tree, `Panel.genCfg`) satisfies `Panel.SingleRecord`.

On the pinned tree both fail (DESIGN §8 rows 6, 7): `gen_rank_ordered` and `gen_orphan_repair` do not hold of
its facts. The explicit pinned values are refuted below (`pinned_*`, `c17_orphan_witness_pinned`), and the harness
replays those witnesses on the real code. -/

namespace C17
open Locks

/-! ## Part 1 — lock order -/

/-- the bookkeeping structs have exactly the three mutexes the rank speaks about -/
theorem gen_lock_classes :
    Gen.Panel.lockClasses = [("activeUsersM", 1), ("sessionsM", 2), ("usageUpdateQueueM", 0)] := by decide

set_option maxRecDepth 100000 in
/-- OBLIGATION: every extracted path is well-bracketed and acquires in the order Q < A < S -/
theorem gen_rank_ordered : genPrograms.all (okb rankQAS []) = true := by decide

set_option maxRecDepth 100000 in
/-- the extraction is not empty: the upload round, the commit, the admission and the closure paths are there
and do take locks -/
theorem gen_programs_nontrivial :
    (genProgramsOf "updateUsageQueue").any (fun p => decide (p.length ≥ 4)) = true ∧
    (genProgramsOf "commitUpdate").any (fun p => decide (p.length ≥ 8)) = true ∧
    (genProgramsOf "dispatchConnection").any (fun p => decide (p.length ≥ 4)) = true ∧
    (genProgramsOf "CloseSession").any (fun p => decide (p.length ≥ 6)) = true ∧
    (genProgramsOf "uploadRound").any (fun p => decide (p.length ≥ 12)) = true ∧
    (genProgramsOf "GetUser") ≠ [] ∧ (genProgramsOf "GetSession") ≠ [] ∧ (genProgramsOf "TerminateActiveUser") ≠ [] := by
  decide

theorem rank_bound : ∀ l, rankQAS l < 3 := by intro l; simp only [rankQAS]; omega

/-- **C17 (1)**: any number of concurrent bookkeeping operations — each an extracted path working on the panel's
two locks and on the `sessionsM` of some record `u` — under any schedule and any blocking discipline in which a
refused acquisition has a holder: no reachable state is deadlocked. (Assumption, stated in the evidence:
whatever else is done while holding a lock — bbolt calls, `sesh.Close()` — returns; a loop body is counted once.) -/
theorem c17_no_deadlock (D : Discipline) (s0 : List Thread)
    (h0 : ∀ t ∈ s0, t.held = [] ∧ ∃ p ∈ genPrograms, ∃ u, t.prog = p.map (Instr.map (instOf u)))
    (s : List Thread) (hr : Reach D s0 s) : ¬ Deadlocked D s := by
  apply locks_rank_ordered_no_deadlock D rankQAS 3 rank_bound s0 _ s hr
  intro t ht
  obtain ⟨hh, p, hp, u, hprog⟩ := h0 t ht
  refine ⟨hh, ?_⟩
  rw [hprog]
  have hall := gen_rank_ordered
  rw [List.all_eq_true] at hall
  have := ok_map rankQAS rankQAS (instOf u) (instOf_inj u) (rankQAS_instOf u) p [] (ok_of_okb _ _ _ (hall p hp))
  simpa using this

/-- non-vacuity: two overlapping upload rounds and an admission are an admissible initial state -/
example : ∃ p ∈ genPrograms, p.length ≥ 12 := by
  have := gen_programs_nontrivial.2.2.2.2.1
  rw [List.any_eq_true] at this
  obtain ⟨p, hp, hl⟩ := this
  refine ⟨p, ?_, by simpa using hl⟩
  unfold genProgramsOf at hp
  unfold genPrograms
  rw [List.mem_flatMap] at hp ⊢
  obtain ⟨e, he, hpe⟩ := hp
  exact ⟨e, (List.mem_filter.1 he).1, hpe⟩

/-! ### the pinned tree: `updateUsageQueue` takes A then Q, `commitUpdate` holds Q and takes A.RLock -/

def updateUsageQueue_pinned : List Instr := [.acq A, .acq Q, .rel A, .rel Q]
def commitUpdate_pinned : List Instr := [.acq Q, .acq A, .rel A, .acq S, .rel S, .acq A, .rel A, .rel Q]
def updateUsageQueue_repaired : List Instr := [.acq Q, .acq A, .rel A, .rel Q]

theorem pinned_not_ordered : okb rankQAS [] updateUsageQueue_pinned = false := by decide
theorem repaired_ordered : okb rankQAS [] updateUsageQueue_repaired = true ∧ okb rankQAS [] commitUpdate_pinned = true := by decide

/-- no rank whatsoever orders the two pinned programs -/
theorem pinned_not_rank_orderable (rank : Nat → Nat) :
    ¬ (ok rank [] updateUsageQueue_pinned ∧ ok rank [] commitUpdate_pinned) := by
  intro ⟨h1, h2⟩
  simp only [updateUsageQueue_pinned, commitUpdate_pinned, ok] at h1 h2
  have a := h1.2.1 A (by simp)
  have b := h2.2.1 Q (by simp)
  omega

def pinnedStart : List Thread := [⟨[], updateUsageQueue_pinned⟩, ⟨[], commitUpdate_pinned⟩]
def pinnedStuck : List Thread :=
  [⟨[A], [.acq Q, .rel A, .rel Q]⟩, ⟨[Q], [.acq A, .rel A, .acq S, .rel S, .acq A, .rel A, .rel Q]⟩]

/-- two overlapping upload rounds of the pinned tree reach a deadlocked state (the schedule the harness replays:
round 1 takes A and is parked, round 2's commit takes Q and waits for A, round 1 waits for Q) -/
theorem pinned_deadlock_reachable : Reach mutexD pinnedStart pinnedStuck ∧ Deadlocked mutexD pinnedStuck := by
  constructor
  · have s1 : Step mutexD pinnedStart (pinnedStart.set 0 ⟨A :: [], [.acq Q, .rel A, .rel Q]⟩) := by
      apply Step.acq pinnedStart 0 ⟨[], updateUsageQueue_pinned⟩ A [.acq Q, .rel A, .rel Q] rfl rfl
      intro j t hj ht
      match j, hj, ht with
      | 1, _, ht => simp [pinnedStart] at ht; subst ht; simp
      | j+2, _, ht => simp [pinnedStart] at ht
    have s2 : Step mutexD (pinnedStart.set 0 ⟨A :: [], [.acq Q, .rel A, .rel Q]⟩) pinnedStuck := by
      have := Step.acq (D := mutexD) (pinnedStart.set 0 ⟨A :: [], [.acq Q, .rel A, .rel Q]⟩) 1
        ⟨[], commitUpdate_pinned⟩ Q [.acq A, .rel A, .acq S, .rel S, .acq A, .rel A, .rel Q] rfl rfl
        (by
          intro j t hj ht
          match j, hj, ht with
          | 0, _, ht => simp [pinnedStart] at ht; subst ht; simp [A, Q]
          | j+2, _, ht => simp [pinnedStart] at ht)
      exact this
    exact Reach.step (Reach.step Reach.refl s1) s2
  · refine ⟨⟨⟨[A], [.acq Q, .rel A, .rel Q]⟩, by simp [pinnedStuck], by simp⟩, ?_⟩
    intro s' hs
    cases hs with
    | acq i t l p hi hp hc =>
      match i, hi with
      | 0, hi =>
        simp [pinnedStuck] at hi; subst hi
        simp at hp
        obtain ⟨rfl, _⟩ := hp
        exact hc 1 ⟨[Q], [.acq A, .rel A, .acq S, .rel S, .acq A, .rel A, .rel Q]⟩ (by decide) rfl (by simp)
      | 1, hi =>
        simp [pinnedStuck] at hi; subst hi
        simp at hp
        obtain ⟨rfl, _⟩ := hp
        exact hc 0 ⟨[A], [.acq Q, .rel A, .rel Q]⟩ (by decide) rfl (by simp)
      | i+2, hi => simp [pinnedStuck] at hi
    | rel i t l p hi hp =>
      match i, hi with
      | 0, hi => simp [pinnedStuck] at hi; subst hi; simp at hp
      | 1, hi => simp [pinnedStuck] at hi; subst hi; simp at hp
      | i+2, hi => simp [pinnedStuck] at hi

/-- the executable machine the driver runs agrees on that state -/
theorem pinned_exec_deadlock :
    Exec.deadlockedB (Exec.settle 10 pinnedStuck) = true ∧
    (Exec.adv 1 pinnedStart 0).1 = pinnedStart.set 0 ⟨[A], [.acq Q, .rel A, .rel Q]⟩ := by decide

/-! ## Part 2 — one record per user, no session outside it -/

/-- full statement, for a given set of repair facts -/
def c17_single_record_full (cfg : Panel.Cfg) : Prop :=
  ∀ evs : List Panel.Ev, Panel.SingleRecord (Panel.run cfg Panel.init evs)

/-- OBLIGATION: the tree has the repair — `GetSession` refuses on a retired record, `TerminateActiveUser` retires
the record under `sessionsM` before it closes the sessions, closes before it deletes, and deletes only its own entry -/
theorem gen_orphan_repair :
    Panel.genCfg = Panel.orphanRepaired Gen.Panel.refusedCleanupClosesOwnId Gen.Panel.refusedCleanupRetires ∧
    Gen.Panel.terminateClosesBeforeDelete = true := by decide

/-- the atomic steps of the model are the critical sections of the code; the admission is two such steps -/
theorem gen_structure :
    Gen.Panel.getSessionUnderLock = true ∧ Gen.Panel.closeSessionUnderLock = true ∧
    Gen.Panel.closeAllSessionsUnderLock = true ∧ Gen.Panel.getUserUnderLock = true ∧
    Gen.Panel.getBypassUserUnderLock = true ∧ Gen.Panel.admissionTwoSteps = true := by decide

/-- **C17 (2)**: for every schedule of admissions (user lookup and session creation as two steps), session
closures, clean-ups of refused connections (whichever of the two the tree has: C15), terminations (close-all then
delete, from whichever caller) and admin changes: each live session is in
the record `activeUsers` holds for its uid; hence one record per uid, and no session in a terminated record.
Holds in EVERY reachable state, quiescent or not. -/
theorem c17_single_record : c17_single_record_full Panel.genCfg := by
  intro evs
  rw [gen_orphan_repair.1]
  exact Panel.inv_single (Panel.inv_run evs Panel.inv_init)

def uinfo : Panel.Info := ⟨2, 1000000, 1000000, 5000, 5000, 100⟩

/-- the invariant does not depend on which clean-up a refused connection performs (`CloseSession(own id)` or the
repaired "terminate if empty") -/
theorem c17_single_record_either (names retires : Bool) : c17_single_record_full (Panel.orphanRepaired names retires) :=
  fun evs => Panel.inv_single (Panel.inv_run evs Panel.inv_init)

/-- non-vacuity: a run with two users, joins, a refused third session and its clean-up, a last-session closure and a
re-admission -/
example :
    let evs : List Panel.Ev := [.put 7 uinfo, .put 8 uinfo, .getUser 7 false 10, .getUser 8 false 10,
      .getSession 0 1 100 10, .getSession 0 1 101 10, .getSession 0 2 102 10, .getSession 0 3 103 10,
      .refusedCleanup 0 3, .getSession 1 1 104 10, .closeLocked 1 1, .retire 1, .closeAll 1, .deleteRec 1, .getUser 8 false 11, .getSession 2 5 105 11]
    let s := Panel.run Panel.repairedCfg Panel.init evs
    s.active = [(8, 2), (7, 0)] ∧ (s.recs.map (·.sessions.length)) = [2, 0, 1] ∧ Panel.singleRecordB s = true := by
  decide

/-- the admission-vs-last-close schedule (5 steps after the set-up): the dispatcher resolves the record, the
user's last session closes and the record is terminated, then the dispatcher creates its session in it -/
def orphanSchedule : List Panel.Ev :=
  [.put 7 uinfo, .getUser 7 false 10, .getSession 0 1 100 10,
   .getUser 7 false 10,            -- second connection: dispatcher resolves record 0 …
   .closeLocked 0 1,               -- … the last session closes (remaining = 0) …
   .retire 0, .closeAll 0, .deleteRec 0,      -- … TerminateActiveUser
   .getSession 0 2 200 10]         -- … and the dispatcher creates session 2 inside the removed record

/-- WITNESS (pinned facts): the orphan session -/
theorem c17_orphan_witness_pinned : ¬ c17_single_record_full Panel.pinnedCfg := by
  intro h
  have := Panel.single_of_B (h orphanSchedule)
  revert this
  decide

/-- the same schedule on the repaired design: the late `GetSession` is refused (`retired`) -/
theorem c17_orphan_schedule_repaired :
    Panel.singleRecordB (Panel.run Panel.repairedCfg Panel.init orphanSchedule) = true ∧
    (Panel.getSession Panel.repairedCfg (Panel.run Panel.repairedCfg Panel.init orphanSchedule.dropLast) 0 2 200 10).2
      = Panel.Res.retired := by decide

/-- why the guarded delete is part of the repair: two terminations of record 0 overlap (last-session closure and
a TERMINATE verdict), the user reconnects in between, the second delete removes the NEW record's entry -/
theorem c17_unguarded_delete_witness : ¬ c17_single_record_full ⟨true, true, false, false, true⟩ := by
  intro h
  have := Panel.single_of_B (h [.put 7 uinfo, .getUser 7 false 10, .getSession 0 1 100 10, .closeLocked 0 1,
    .retire 0, .retire 0, .closeAll 0, .closeAll 0, .deleteRec 0, .getUser 7 false 10, .getSession 1 1 300 10, .deleteRec 0])
  revert this
  decide

/-! ### a termination decided before a session existed never closes it (C01 "keeps working", C17)

`CloseSession` decides "no session left" in its locked part.  Before /repo's fix the record was retired only later, by
`TerminateActiveUser`, after the lock had been released: a connection dispatched in between got a FRESH session in the
record — healthy connection, open stream, data — which the termination then closed with "no session left" (found by the
second red-team round; harness `c01stale.go`, schedule point `ActiveUser.CloseSession:beforeTerminate`).  Now the decision
and the retirement are one step of the model (`Gen.Panel.closeSessionRetiresWhenEmpty`), and every admission that comes
after the decision is told to look the user up again. -/

/-- the admission that finds a retired record does not wait for something that may never come: either it waits for
nothing, or for a channel that every record is made with and that the termination always closes, after the delete -/
theorem gen_retry_wait : Gen.Panel.retryWaitIsSignalled = true := by decide

theorem gen_close_retires : Gen.Panel.closeSessionRetiresWhenEmpty = true := by decide

theorem c17_close_decision_blocks_admission (cfg : Panel.Cfg) (hc : cfg.checksRetired = true) (s : Panel.St) (rid sid : Nat)
    (h : (Panel.closeLocked s rid sid).2 = some 0) (sid' key : Nat) (now : Int) :
    (Panel.getSession cfg (Panel.closeLocked s rid sid).1 rid sid' key now).2 = .retired := by
  unfold Panel.closeLocked at h ⊢
  cases hr : s.recs[rid]? with
  | none => rw [hr] at h; simp at h
  | some r =>
    rw [hr] at h
    simp only [Option.some.injEq] at h
    have hemp : (r.sessions.filter (fun e => e.1 != sid)).isEmpty = true := by
      cases hf : r.sessions.filter (fun e => e.1 != sid) with
      | nil => rfl
      | cons a b => rw [hf] at h; simp at h
    simp only
    unfold Panel.getSession
    simp only
    rw [Panel.getElem?_set_eq' _ _ _ _ hr]
    simp [hc, gen_close_retires, hemp]

/-- the old shape, explicitly: with the retirement left to `TerminateActiveUser` the admission in the gap CREATES a
session in the record whose termination has been decided, and the termination closes it -/
def staleS0 : Panel.St := Panel.run Panel.repairedCfg Panel.init [.put 7 uinfo, .getUser 7 false 10, .getSession 0 1 100 10]
/-- the locked part of `CloseSession` WITHOUT the retirement: session 1 removed, nothing else -/
def staleS1 : Panel.St := { staleS0 with recs := staleS0.recs.map (fun r => { r with sessions := r.sessions.filter (fun e => e.1 != 1) }) }

theorem c17_stale_termination_witness :
    (Panel.getSession Panel.repairedCfg staleS1 0 2 200 10).2 = .created 200 ∧
    ((Panel.run Panel.repairedCfg (Panel.getSession Panel.repairedCfg staleS1 0 2 200 10).1 [.retire 0, .closeAll 0]).recs.map (·.sessions)) = [[]] := by
  decide

end C17

#print axioms C17.c17_no_deadlock
#print axioms C17.c17_close_decision_blocks_admission
#print axioms C17.c17_single_record
#print axioms C17.pinned_deadlock_reachable
