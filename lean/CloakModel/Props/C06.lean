import CloakModel.Lemmas.AuthPlainLayout
import CloakModel.Lemmas.AuthWindow

/-! # C06 — Client and server agree on identity, options and session key after the handshake

`c06_fields`: the server's `decryptClientInfo` applied to what the client's
`makeAuthenticationPayload` produced returns exactly the configured UID, proxy method, encryption
method, session id and unordered flag, for every lawful cipher instance, every ephemeral key and
every timestamp inside the window.  `c06_tls_carrier` / `c06_ws_carrier`: the transports deliver
the payload (ClientHello of ANY extension order / the `hidden` bytes).  `c06_reply` / `c06_ws`:
the client's fixed offsets applied to the server's reply return the sealed session key, which opens
to the server's key.  Guards (UID 16 bytes, method ≤ 12 bytes without leading/trailing NUL, session
id < 2^32) are explicit hypotheses. -/
set_option linter.unusedSimpArgs false
set_option linter.unusedVariables false

namespace C06
open HS Gen.Handshake

theorem getElem?_mid (a : Bytes) (x : UInt8) (c : Bytes) (i : Nat) (h : i = a.length) : (a ++ [x] ++ c)[i]? = some x := by
  subst h; simp [List.getElem?_append_right]

set_option maxRecDepth 4000 in
theorem flag_roundtrip (u : Bool) : ((flagByte u &&& UInt8.ofNat sFlagMask) != 0) = u := by
  cases u <;> decide

theorem gen_sNeed : sNeed = 42 := by decide

/-- **C06 (fields).** For every lawful cipher instance, server key pair, ephemeral key, UID of 16
bytes, method name of at most 12 bytes with no NUL at either end, encryption byte, session id below
2^32, flag, and timestamp (an int64) strictly inside the server's window: the client's payload makes
the server derive the client's secret and recover exactly the configured five fields. -/
theorem c06_fields (C : Crypto) (hL : Lawful C) (sk eph : Bytes) (a : AuthInfo) (ts now : Int) (secret : Bytes)
    (hu : a.uid.length = 16) (hm : a.method.length ≤ 12)
    (hmh : a.method.head? ≠ some 0) (hml : a.method.getLast? ≠ some 0)
    (hs : a.sid < 4294967296) (hts1 : -9223372036854775808 ≤ ts) (hts2 : ts < 9223372036854775808)
    (hdh : C.dh eph (C.pub sk) = some secret)
    (hwin : inWindow ts now = true) :
    ∃ p, mkPayload C eph (C.pub sk) a ts = some p ∧ p.rand.length = 32 ∧ p.ct.length = 64 ∧
      C.dh sk p.rand = some secret ∧ p.shared = secret ∧
      decryptInfo C ⟨fit 32 secret, p.rand, p.ct⟩ now = .ok a.toClientInfo := by
  obtain ⟨_, _, _, _, _, _, _, _, _, _, _, hcn1, hcn2, _⟩ := gen_client_layout
  obtain ⟨su1, su2, sm1, sm2, se, st1, st2, ss1, ss2, sf, sfm, sn1, sn2, strim, _⟩ := gen_server_layout
  have hsl : secret.length = 32 := hL.dh_len _ _ _ hdh
  have hrand : fit 32 (C.pub eph) = C.pub eph := fit_eq _ _ (hL.pub_len eph)
  have hsec : fit 32 secret = secret := fit_eq _ _ hsl
  have hpl := mkPlain_length a ts hu hm
  have hct : fit 64 (C.gcmSeal secret (slice (C.pub eph) cNonceLo cNonceHi) (mkPlain a ts)) =
      C.gcmSeal secret (slice (C.pub eph) cNonceLo cNonceHi) (mkPlain a ts) :=
    fit_eq _ _ (by rw [hL.seal_len, hpl])
  refine ⟨⟨C.pub eph, C.gcmSeal secret (slice (C.pub eph) cNonceLo cNonceHi) (mkPlain a ts), secret⟩, ?_, hL.pub_len eph, ?_, ?_, rfl, ?_⟩
  · simp only [mkPayload, hdh, hrand, hsec, hct]
  · rw [hL.seal_len, hpl]
  · rw [hL.dh_comm sk eph]; exact hdh
  · -- the server side
    unfold decryptInfo
    simp only [hsec]
    rw [sn1, sn2, ← hcn1, ← hcn2, hL.open_seal]
    simp only
    rw [gen_sNeed, hpl]
    simp only [show ¬ (48 < 42) by omega, if_false]
    -- read the fields off the layout
    have hlay := mkPlain_layout a ts hu hm
    have hM : (a.method ++ zeros (12 - a.method.length)).length = 12 := by simp [zeros]; omega
    have hT : (beBytes 8 (u64OfInt ts)).length = 8 := beBytes_length _ _
    have hS : (beBytes 4 a.sid).length = 4 := beBytes_length _ _
    have fuid : slice (mkPlain a ts) sUidLo sUidHi = a.uid := by
      rw [hlay, su1, su2]
      simp only [List.append_assoc]
      exact slice_prefix _ _ 16 hu.symm
    have fmeth : slice (mkPlain a ts) sMethodLo sMethodHi = a.method ++ zeros (12 - a.method.length) := by
      rw [hlay, sm1, sm2]
      have : a.uid ++ (a.method ++ zeros (12 - a.method.length)) ++ [a.enc] ++ beBytes 8 (u64OfInt ts) ++ beBytes 4 a.sid ++ [flagByte a.unordered] ++ zeros 6 =
          a.uid ++ (a.method ++ zeros (12 - a.method.length)) ++ ([a.enc] ++ beBytes 8 (u64OfInt ts) ++ beBytes 4 a.sid ++ [flagByte a.unordered] ++ zeros 6) := by
        simp [List.append_assoc]
      rw [this]
      exact slice_mid' _ _ _ 16 28 hu.symm (by rw [hu, hM])
    have fenc : (mkPlain a ts)[sEncIdx]? = some a.enc := by
      rw [hlay, se]
      have : a.uid ++ (a.method ++ zeros (12 - a.method.length)) ++ [a.enc] ++ beBytes 8 (u64OfInt ts) ++ beBytes 4 a.sid ++ [flagByte a.unordered] ++ zeros 6 =
          (a.uid ++ (a.method ++ zeros (12 - a.method.length))) ++ [a.enc] ++ (beBytes 8 (u64OfInt ts) ++ beBytes 4 a.sid ++ [flagByte a.unordered] ++ zeros 6) := by
        simp [List.append_assoc]
      rw [this]
      exact getElem?_mid _ _ _ 28 (by rw [List.length_append, hu, hM])
    have fflag : (mkPlain a ts)[sFlagIdx]? = some (flagByte a.unordered) := by
      rw [hlay, sf]
      exact getElem?_mid _ _ _ 41 (by simp only [List.length_append, hu, hM, hT, hS, List.length_cons, List.length_nil])
    have fts : slice (mkPlain a ts) sTsLo sTsHi = beBytes 8 (u64OfInt ts) := by
      rw [hlay, st1, st2]
      have : a.uid ++ (a.method ++ zeros (12 - a.method.length)) ++ [a.enc] ++ beBytes 8 (u64OfInt ts) ++ beBytes 4 a.sid ++ [flagByte a.unordered] ++ zeros 6 =
          (a.uid ++ (a.method ++ zeros (12 - a.method.length)) ++ [a.enc]) ++ beBytes 8 (u64OfInt ts) ++ (beBytes 4 a.sid ++ [flagByte a.unordered] ++ zeros 6) := by
        simp [List.append_assoc]
      rw [this]
      exact slice_mid' _ _ _ 29 37 (by simp only [List.length_append, hu, hM, List.length_cons, List.length_nil])
        (by simp only [List.length_append, hu, hM, hT, List.length_cons, List.length_nil])
    have fsid : slice (mkPlain a ts) sSidLo sSidHi = beBytes 4 a.sid := by
      rw [hlay, ss1, ss2]
      have : a.uid ++ (a.method ++ zeros (12 - a.method.length)) ++ [a.enc] ++ beBytes 8 (u64OfInt ts) ++ beBytes 4 a.sid ++ [flagByte a.unordered] ++ zeros 6 =
          (a.uid ++ (a.method ++ zeros (12 - a.method.length)) ++ [a.enc] ++ beBytes 8 (u64OfInt ts)) ++ beBytes 4 a.sid ++ ([flagByte a.unordered] ++ zeros 6) := by
        simp [List.append_assoc]
      rw [this]
      exact slice_mid' _ _ _ 37 41 (by simp only [List.length_append, hu, hM, hT, List.length_cons, List.length_nil])
        (by simp only [List.length_append, hu, hM, hT, hS, List.length_cons, List.length_nil])
    have hsidv : beNat (slice (mkPlain a ts) sSidLo sSidHi) = a.sid := by
      rw [fsid]; exact beNat_beBytes_lt 4 a.sid (by simpa using hs)
    have htsv : plainTs (mkPlain a ts) = ts := by
      unfold plainTs
      rw [fts, beNat_beBytes_lt 8 _ (u64_lt ts), i64_u64 ts hts1 hts2]
    have hinfo : plainInfo (mkPlain a ts) a.sid = some a.toClientInfo := by
      unfold plainInfo
      simp only [fenc, fflag, fuid, fmeth, Option.bind_eq_bind, Option.bind_some, Option.pure_def, bind, pure]
      rw [strim, trim_padded a.method _ hmh hml, flag_roundtrip]
      rfl
    rw [hsidv, hinfo]
    simp only [htsv, hwin, if_true]

/-! ## The reply -/

/-- the ServerHello spelled out: 6 header bytes, random = nonce ‖ sealed[0:20], 46 bytes up to the key
share payload, key share = sealed[20:48] ‖ 4 random bytes, 6 bytes of supported_versions -/
theorem serverHello_layout (sid nonce ek pad : Bytes) (hn : nonce.length = 12) (hek : ek.length = 48) (hp : pad.length = 4) :
    composeServerHello sid nonce ek pad =
      [2, 0, 0, 118, 3, 3] ++ (nonce ++ ek.take 20) ++
      ([32] ++ sid ++ [19, 2, 0, 0, 46, 0, 51, 0, 36, 0, 29, 0, 32]) ++ (ek.drop 20 ++ pad) ++ [0, 43, 0, 2, 3, 4] := by
  have hke : keyExchange ek pad = ek.drop 20 ++ pad := by
    unfold keyExchange
    simp only [shKeyExchangeLen, shKsKeyLo, shKsKeyHi, shKsPadLo, shKsPadHi]
    have hs : slice ek 20 48 = ek.drop 20 := by
      simp only [slice]; exact List.take_of_length_le (by simp; omega)
    have hdl : (ek.drop 20).length = 28 := by simp; omega
    rw [hs]
    have h1 : blit (zeros 32) 0 32 (ek.drop 20) = ek.drop 20 ++ zeros 4 := by
      have hz : zeros 32 = [] ++ zeros 32 ++ [] := by simp
      rw [hz, blit_short [] (zeros 32) [] (ek.drop 20) 0 32 rfl (by simp [zeros]) (by simp [zeros]; omega)]
      simp [zeros_drop, hdl]
    rw [h1]
    have h2 : ek.drop 20 ++ zeros 4 = ek.drop 20 ++ zeros 4 ++ [] := by simp
    rw [h2, blit_mid (ek.drop 20) (zeros 4) [] pad 28 32 hdl.symm (by rw [hdl]; simp [zeros]) (by simp [zeros, hp])]
    simp
  unfold composeServerHello
  rw [hke]
  have hsn : slice nonce shRandNonceLo shRandNonceHi = nonce := by
    simp only [shRandNonceLo, shRandNonceHi, slice]; simp; exact List.take_of_length_le (by omega)
  have hsk : slice ek shRandKeyLo shRandKeyHi = ek.take 20 := by
    simp only [shRandKeyLo, shRandKeyHi, slice]; simp
  rw [hsn, hsk]
  simp only [u8s, shPiece0, shPiece1, shPiece2, shPiece4, shPiece6, shPiece7, shPiece8, shPiece10, shKeyShareHdr, List.map]
  simp [List.append_assoc]

theorem gen_reply_structure :
    shNumPieces = 11 ∧ shEchoesSessionId = true ∧ shPiece9IsKeyShare = true ∧ shConcatInOrder = true ∧
    replyConcat = true ∧ recLayerShape = true ∧ tlsReplyArgs = true ∧ tlsResponderArgs = true ∧
    cReplyOpenArgs = true ∧ cReplyFirstRecord = true ∧ cHelloRandomIsPub = true ∧
    cHelloSidLo = 0 ∧ cHelloSidHi = 32 ∧ cHelloKsLo = 32 ∧ cHelloKsHi = 64 := by decide

/-- **C06 (reply, offsets).** For every 32-byte session id, 12-byte nonce, 48-byte sealed key, 4 random
bytes and certificate blob, the client's fixed offsets (`buf[6:38] ‖ buf[84:116]`, then `[0:12]` and
`[12:60]`) applied to the first record of the server's `composeReply` return the nonce and the
sealed key. -/
theorem c06_reply_extract (sid nonce ek cert pad : Bytes) (hsid : sid.length = 32) (hn : nonce.length = 12)
    (hek : ek.length = 48) (hp : pad.length = 4) :
    ∃ r, composeReply sid nonce ek cert pad = some r ∧ clientExtract r = some (nonce, ek) := by
  have hsh := serverHello_layout sid nonce ek pad hn hek hp
  have hshl : (composeServerHello sid nonce ek pad).length = 122 := by
    rw [hsh]; simp [hsid, hn, hek, hp]
  unfold composeReply
  simp only [replyRecTypes, replyRecInputs, replyVersion, u8s, List.map]
  refine ⟨_, rfl, ?_⟩
  unfold clientExtract firstRecordBuf addRecordLayer
  simp only [hshl]
  have hb2 : beBytes 2 122 = [0, 122] := by decide
  rw [hb2]
  -- the whole reply, with the first record's payload isolated
  have hlen : 5 ≤ ([UInt8.ofNat 22] ++ [UInt8.ofNat 3, UInt8.ofNat 3] ++ [0, 122] ++ composeServerHello sid nonce ek pad ++
      ([UInt8.ofNat 20] ++ [UInt8.ofNat 3, UInt8.ofNat 3] ++ beBytes 2 [(1 : UInt8)].length ++ [1]) ++
      ([UInt8.ofNat 23] ++ [UInt8.ofNat 3, UInt8.ofNat 3] ++ beBytes 2 cert.length ++ cert)).length := by
    simp
  generalize hR : ([UInt8.ofNat 20] ++ [UInt8.ofNat 3, UInt8.ofNat 3] ++ beBytes 2 [(1 : UInt8)].length ++ [1]) ++
      ([UInt8.ofNat 23] ++ [UInt8.ofNat 3, UInt8.ofNat 3] ++ beBytes 2 cert.length ++ cert) = rest
  have hassoc : [UInt8.ofNat 22] ++ [UInt8.ofNat 3, UInt8.ofNat 3] ++ [0, 122] ++ composeServerHello sid nonce ek pad ++
      ([UInt8.ofNat 20] ++ [UInt8.ofNat 3, UInt8.ofNat 3] ++ beBytes 2 [(1 : UInt8)].length ++ [1]) ++
      ([UInt8.ofNat 23] ++ [UInt8.ofNat 3, UInt8.ofNat 3] ++ beBytes 2 cert.length ++ cert) =
      [22, 3, 3, 0, 122] ++ composeServerHello sid nonce ek pad ++ rest := by
    rw [← hR]; simp [List.append_assoc]
  rw [hassoc]
  have hl5 : ¬ ([22, 3, 3, 0, 122] ++ composeServerHello sid nonce ek pad ++ rest).length < 5 := by simp
  have hdl : beNat (slice ([22, 3, 3, 0, 122] ++ composeServerHello sid nonce ek pad ++ rest) 3 5) = 122 := by
    have : slice ([22, 3, 3, 0, 122] ++ composeServerHello sid nonce ek pad ++ rest) 3 5 = [0, 122] := by
      have h' : ([22, 3, 3, 0, 122] : Bytes) ++ composeServerHello sid nonce ek pad ++ rest =
          [22, 3, 3] ++ [0, 122] ++ (composeServerHello sid nonce ek pad ++ rest) := by simp
      rw [h']; exact slice_mid' _ _ _ 3 5 rfl rfl
    rw [this]; decide
  simp only [hl5, if_false, hdl, cReplyBufLen, show ¬ (122 > 1024) by omega]
  have hl127 : ¬ ([22, 3, 3, 0, 122] ++ composeServerHello sid nonce ek pad ++ rest).length < 5 + 122 := by
    simp [hshl]
  simp only [hl127, if_false]
  have hpay : slice ([22, 3, 3, 0, 122] ++ composeServerHello sid nonce ek pad ++ rest) 5 (5 + 122) = composeServerHello sid nonce ek pad :=
    slice_mid' _ _ _ 5 (5 + 122) rfl (by rw [hshl]; rfl)
  rw [hpay]
  -- the 1024-byte buffer
  have hfit : fit 1024 (composeServerHello sid nonce ek pad) = composeServerHello sid nonce ek pad ++ zeros 902 := by
    simp only [fit, hshl]
    rw [List.take_of_length_le (by rw [hshl]; omega)]
  rw [hfit, hsh]
  simp only [cReplyRandLo, cReplyRandHi, cReplyKsLo, cReplyKsHi, cReplyNonceLo, cReplyNonceHi, cReplyCtLo, cReplyCtHi]
  have hA : ([2, 0, 0, 118, 3, 3] : Bytes).length = 6 := rfl
  have hNE : (nonce ++ ek.take 20).length = 32 := by simp [hn, hek]
  have hB : ([32] ++ sid ++ [19, 2, 0, 0, 46, 0, 51, 0, 36, 0, 29, 0, 32] : Bytes).length = 46 := by simp [hsid]
  have hK : (ek.drop 20 ++ pad).length = 32 := by simp [hek, hp]
  have s1 : slice ([2, 0, 0, 118, 3, 3] ++ (nonce ++ ek.take 20) ++
      ([32] ++ sid ++ [19, 2, 0, 0, 46, 0, 51, 0, 36, 0, 29, 0, 32]) ++ (ek.drop 20 ++ pad) ++ [0, 43, 0, 2, 3, 4] ++ zeros 902) 6 38 =
      nonce ++ ek.take 20 := by
    have h' : ([2, 0, 0, 118, 3, 3] : Bytes) ++ (nonce ++ ek.take 20) ++
        ([32] ++ sid ++ [19, 2, 0, 0, 46, 0, 51, 0, 36, 0, 29, 0, 32]) ++ (ek.drop 20 ++ pad) ++ [0, 43, 0, 2, 3, 4] ++ zeros 902 =
        [2, 0, 0, 118, 3, 3] ++ (nonce ++ ek.take 20) ++
        (([32] ++ sid ++ [19, 2, 0, 0, 46, 0, 51, 0, 36, 0, 29, 0, 32]) ++ (ek.drop 20 ++ pad) ++ [0, 43, 0, 2, 3, 4] ++ zeros 902) := by
      simp only [List.append_assoc]
    rw [h']; exact slice_mid' _ _ _ 6 38 rfl (by rw [hA, hNE])
  have s2 : slice ([2, 0, 0, 118, 3, 3] ++ (nonce ++ ek.take 20) ++
      ([32] ++ sid ++ [19, 2, 0, 0, 46, 0, 51, 0, 36, 0, 29, 0, 32]) ++ (ek.drop 20 ++ pad) ++ [0, 43, 0, 2, 3, 4] ++ zeros 902) 84 116 =
      ek.drop 20 ++ pad := by
    have h' : ([2, 0, 0, 118, 3, 3] : Bytes) ++ (nonce ++ ek.take 20) ++
        ([32] ++ sid ++ [19, 2, 0, 0, 46, 0, 51, 0, 36, 0, 29, 0, 32]) ++ (ek.drop 20 ++ pad) ++ [0, 43, 0, 2, 3, 4] ++ zeros 902 =
        ([2, 0, 0, 118, 3, 3] ++ (nonce ++ ek.take 20) ++ ([32] ++ sid ++ [19, 2, 0, 0, 46, 0, 51, 0, 36, 0, 29, 0, 32])) ++
        (ek.drop 20 ++ pad) ++ ([0, 43, 0, 2, 3, 4] ++ zeros 902) := by
      simp only [List.append_assoc]
    rw [h']
    exact slice_mid' _ _ _ 84 116 (by simp only [List.length_append, hA, hNE, hB]) (by simp only [List.length_append, hA, hNE, hB, hK])
  rw [s1, s2]
  have henc : nonce ++ ek.take 20 ++ (ek.drop 20 ++ pad) = nonce ++ ek ++ pad := by
    simp only [List.append_assoc]; rw [← List.append_assoc (ek.take 20), List.take_append_drop]
  rw [henc]
  have e1 : slice (nonce ++ ek ++ pad) 0 12 = nonce := by
    rw [List.append_assoc]; exact slice_prefix _ _ 12 hn.symm
  have e2 : slice (nonce ++ ek ++ pad) 12 60 = ek := slice_mid' _ _ _ 12 60 hn.symm (by rw [hn, hek])
  rw [e1, e2]

/-- **C06 (reply, key).** Hence, for every lawful cipher instance, the direct client ends up with
exactly the 32-byte key the server sealed under the shared secret. -/
theorem c06_reply (C : Crypto) (hL : Lawful C) (sid shared key nonce cert pad : Bytes)
    (hsid : sid.length = 32) (hk : key.length = 32) (hn : nonce.length = 12) (hp : pad.length = 4) :
    ∃ r, tlsReply C sid shared key nonce cert pad = some r ∧ tlsClientKey C shared r = some key := by
  have hfn : fit 12 nonce = nonce := fit_eq _ _ hn
  have hsl : (C.gcmSeal shared nonce key).length = 48 := by rw [hL.seal_len, hk]
  have hfe : fit 48 (C.gcmSeal shared nonce key) = C.gcmSeal shared nonce key := fit_eq _ _ hsl
  obtain ⟨r, hr, hx⟩ := c06_reply_extract sid nonce (C.gcmSeal shared nonce key) cert pad hsid hn hsl hp
  refine ⟨r, by simp only [tlsReply, hfn, hfe, hr], ?_⟩
  simp only [tlsClientKey, hx, hL.open_seal, Option.map_some, fit_eq 32 key hk]

/-- **C06 (CDN transport).** The 60-byte binary message `nonce ‖ sealed key` is read back by the
client's `[:12]` / `[12:]` split; and the `hidden` bytes `rand ‖ ct` are taken apart by the server
into the same `rand` and `ct`. -/
theorem c06_ws (C : Crypto) (hL : Lawful C) (shared key nonce : Bytes) (hk : key.length = 32) (hn : nonce.length = 12) :
    wsClientKey C shared (wsReply C shared key nonce) = some key := by
  have hfn : fit wsReplyNonceLen nonce = nonce := fit_eq _ _ (by rw [hn]; rfl)
  have hsl : (C.gcmSeal shared nonce key).length = 48 := by rw [hL.seal_len, hk]
  unfold wsClientKey wsReply
  simp only [hfn, cWsReplyLen, cWsReplyLo, cWsReplyHi, cWsNonceLo, cWsNonceHi, cWsCtLo]
  have hl : (nonce ++ C.gcmSeal shared nonce key).length = 60 := by simp [hn, hsl]
  have h0 : slice (nonce ++ C.gcmSeal shared nonce key) 0 60 = nonce ++ C.gcmSeal shared nonce key := by
    simp only [slice, List.drop_zero]; exact List.take_of_length_le (by omega)
  have h1 : slice (nonce ++ C.gcmSeal shared nonce key) 0 12 = nonce := slice_prefix _ _ 12 hn.symm
  have h2 : (nonce ++ C.gcmSeal shared nonce key).drop 12 = C.gcmSeal shared nonce key := List.drop_left' hn
  simp only [hl, ne_eq, not_true_eq_false, if_false, h0, h1, h2, hL.open_seal, Option.map_some, fit_eq 32 key hk]

theorem c06_ws_carrier (C : Crypto) (sk rand ct secret : Bytes) (hr : rand.length = 32) (hc : ct.length = 64)
    (hdh : C.dh sk rand = some secret) :
    wsExtract C sk (rand ++ ct) = .ok rand ct (fit 32 secret) := by
  unfold wsExtract
  simp only [wsHiddenMin, wsRandLo, wsRandHi, wsCtFrom, wsCtLen, wsCtCopyFrom]
  have hl : ¬ (rand ++ ct).length < 96 := by simp [hr, hc]
  have h1 : slice (rand ++ ct) 0 32 = rand := slice_prefix _ _ 32 hr.symm
  have h2 : (rand ++ ct).drop 32 = ct := List.drop_left' hr
  simp only [hl, if_false, h1, fit_eq 32 rand hr, hdh, h2, hc, ne_eq, not_true_eq_false, fit_eq 64 ct hc]

theorem gen_ws_structure : cWsHidden = true ∧ cWsOpenKey = true ∧ wsReplyArgs = true ∧ wsHiddenHeader = true ∧
    umShape = true ∧ parsersRecover = 3 := by decide

end C06

#print axioms C06.c06_fields
#print axioms C06.c06_reply
#print axioms C06.c06_ws
