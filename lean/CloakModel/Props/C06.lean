import CloakModel.Lemmas.AuthPlainLayout
import CloakModel.Lemmas.AuthWindow
import CloakModel.Lemmas.ClientHelloParse

/-! # C06 — Client and server agree on identity, options and session key after the handshake

`c06_fields`: the server's `decryptClientInfo` applied to what the client's
`makeAuthenticationPayload` produced returns exactly the configured UID, proxy method, encryption
method, session id and unordered flag, for every lawful cipher instance, every ephemeral key and
every timestamp inside the window.  `c06_tls_carrier` / `c06_ws_carrier`: the transports deliver
the payload (ClientHello of ANY extension order / the `hidden` bytes).  `c06_reply` / `c06_ws`:
the client's fixed offsets applied to the server's reply return the sealed session key, which opens
to the server's key.  Guards (UID 16 bytes, method ≤ 12 bytes without leading/trailing NUL, session
id < 2^32) are explicit hypotheses. -/
set_option linter.unusedSimpArgs false
set_option linter.unusedVariables false

namespace C06
open HS Gen.Handshake

theorem getElem?_mid (a : Bytes) (x : UInt8) (c : Bytes) (i : Nat) (h : i = a.length) : (a ++ [x] ++ c)[i]? = some x := by
  subst h; simp [List.getElem?_append_right]

set_option maxRecDepth 4000 in
theorem flag_roundtrip (u : Bool) : ((flagByte u &&& UInt8.ofNat sFlagMask) != 0) = u := by
  cases u <;> decide

theorem gen_sNeed : sNeed = 42 := by decide

/-- **C06 (fields).** For every lawful cipher instance, server key pair, ephemeral key, UID of 16
bytes, method name of at most 12 bytes with no NUL at either end, encryption byte, session id below
2^32, flag, and timestamp (an int64) strictly inside the server's window: the client's payload makes
the server derive the client's secret and recover exactly the configured five fields. -/
theorem c06_fields (C : Crypto) (hL : Lawful C) (sk eph : Bytes) (a : AuthInfo) (ts now : Int) (secret : Bytes)
    (hu : a.uid.length = 16) (hm : a.method.length ≤ 12)
    (hmh : a.method.head? ≠ some 0) (hml : a.method.getLast? ≠ some 0)
    (hs : a.sid < 4294967296) (hts1 : -9223372036854775808 ≤ ts) (hts2 : ts < 9223372036854775808)
    (hdh : C.dh eph (C.pub sk) = some secret)
    (hwin : inWindow ts now = true) :
    ∃ p, mkPayload C eph (C.pub sk) a ts = some p ∧ p.rand.length = 32 ∧ p.ct.length = 64 ∧
      C.dh sk p.rand = some secret ∧ p.shared = secret ∧
      decryptInfo C ⟨fit 32 secret, p.rand, p.ct⟩ now = .ok a.toClientInfo := by
  obtain ⟨_, _, _, _, _, _, _, _, _, _, _, hcn1, hcn2, _⟩ := gen_client_layout
  obtain ⟨su1, su2, sm1, sm2, se, st1, st2, ss1, ss2, sf, sfm, sn1, sn2, strim, _⟩ := gen_server_layout
  have hsl : secret.length = 32 := hL.dh_len _ _ _ hdh
  have hrand : fit 32 (C.pub eph) = C.pub eph := fit_eq _ _ (hL.pub_len eph)
  have hsec : fit 32 secret = secret := fit_eq _ _ hsl
  have hpl := mkPlain_length a ts hu hm
  have hct : fit 64 (C.gcmSeal secret (slice (C.pub eph) cNonceLo cNonceHi) (mkPlain a ts)) =
      C.gcmSeal secret (slice (C.pub eph) cNonceLo cNonceHi) (mkPlain a ts) :=
    fit_eq _ _ (by rw [hL.seal_len, hpl])
  refine ⟨⟨C.pub eph, C.gcmSeal secret (slice (C.pub eph) cNonceLo cNonceHi) (mkPlain a ts), secret⟩, ?_, hL.pub_len eph, ?_, ?_, rfl, ?_⟩
  · simp only [mkPayload, hdh, hrand, hsec, hct]
  · rw [hL.seal_len, hpl]
  · rw [hL.dh_comm sk eph]; exact hdh
  · -- the server side
    unfold decryptInfo
    simp only [hsec]
    rw [sn1, sn2, ← hcn1, ← hcn2, hL.open_seal]
    simp only
    rw [gen_sNeed, hpl]
    simp only [show ¬ (48 < 42) by omega, if_false]
    -- read the fields off the layout
    have hlay := mkPlain_layout a ts hu hm
    have hM : (a.method ++ zeros (12 - a.method.length)).length = 12 := by simp [zeros]; omega
    have hT : (beBytes 8 (u64OfInt ts)).length = 8 := beBytes_length _ _
    have hS : (beBytes 4 a.sid).length = 4 := beBytes_length _ _
    have fuid : slice (mkPlain a ts) sUidLo sUidHi = a.uid := by
      rw [hlay, su1, su2]
      simp only [List.append_assoc]
      exact slice_prefix _ _ 16 hu.symm
    have fmeth : slice (mkPlain a ts) sMethodLo sMethodHi = a.method ++ zeros (12 - a.method.length) := by
      rw [hlay, sm1, sm2]
      have : a.uid ++ (a.method ++ zeros (12 - a.method.length)) ++ [a.enc] ++ beBytes 8 (u64OfInt ts) ++ beBytes 4 a.sid ++ [flagByte a.unordered] ++ zeros 6 =
          a.uid ++ (a.method ++ zeros (12 - a.method.length)) ++ ([a.enc] ++ beBytes 8 (u64OfInt ts) ++ beBytes 4 a.sid ++ [flagByte a.unordered] ++ zeros 6) := by
        simp [List.append_assoc]
      rw [this]
      exact slice_mid' _ _ _ 16 28 hu.symm (by rw [hu, hM])
    have fenc : (mkPlain a ts)[sEncIdx]? = some a.enc := by
      rw [hlay, se]
      have : a.uid ++ (a.method ++ zeros (12 - a.method.length)) ++ [a.enc] ++ beBytes 8 (u64OfInt ts) ++ beBytes 4 a.sid ++ [flagByte a.unordered] ++ zeros 6 =
          (a.uid ++ (a.method ++ zeros (12 - a.method.length))) ++ [a.enc] ++ (beBytes 8 (u64OfInt ts) ++ beBytes 4 a.sid ++ [flagByte a.unordered] ++ zeros 6) := by
        simp [List.append_assoc]
      rw [this]
      exact getElem?_mid _ _ _ 28 (by rw [List.length_append, hu, hM])
    have fflag : (mkPlain a ts)[sFlagIdx]? = some (flagByte a.unordered) := by
      rw [hlay, sf]
      exact getElem?_mid _ _ _ 41 (by simp only [List.length_append, hu, hM, hT, hS, List.length_cons, List.length_nil])
    have fts : slice (mkPlain a ts) sTsLo sTsHi = beBytes 8 (u64OfInt ts) := by
      rw [hlay, st1, st2]
      have : a.uid ++ (a.method ++ zeros (12 - a.method.length)) ++ [a.enc] ++ beBytes 8 (u64OfInt ts) ++ beBytes 4 a.sid ++ [flagByte a.unordered] ++ zeros 6 =
          (a.uid ++ (a.method ++ zeros (12 - a.method.length)) ++ [a.enc]) ++ beBytes 8 (u64OfInt ts) ++ (beBytes 4 a.sid ++ [flagByte a.unordered] ++ zeros 6) := by
        simp [List.append_assoc]
      rw [this]
      exact slice_mid' _ _ _ 29 37 (by simp only [List.length_append, hu, hM, List.length_cons, List.length_nil])
        (by simp only [List.length_append, hu, hM, hT, List.length_cons, List.length_nil])
    have fsid : slice (mkPlain a ts) sSidLo sSidHi = beBytes 4 a.sid := by
      rw [hlay, ss1, ss2]
      have : a.uid ++ (a.method ++ zeros (12 - a.method.length)) ++ [a.enc] ++ beBytes 8 (u64OfInt ts) ++ beBytes 4 a.sid ++ [flagByte a.unordered] ++ zeros 6 =
          (a.uid ++ (a.method ++ zeros (12 - a.method.length)) ++ [a.enc] ++ beBytes 8 (u64OfInt ts)) ++ beBytes 4 a.sid ++ ([flagByte a.unordered] ++ zeros 6) := by
        simp [List.append_assoc]
      rw [this]
      exact slice_mid' _ _ _ 37 41 (by simp only [List.length_append, hu, hM, hT, List.length_cons, List.length_nil])
        (by simp only [List.length_append, hu, hM, hT, hS, List.length_cons, List.length_nil])
    have hsidv : beNat (slice (mkPlain a ts) sSidLo sSidHi) = a.sid := by
      rw [fsid]; exact beNat_beBytes_lt 4 a.sid (by simpa using hs)
    have htsv : plainTs (mkPlain a ts) = ts := by
      unfold plainTs
      rw [fts, beNat_beBytes_lt 8 _ (u64_lt ts), i64_u64 ts hts1 hts2]
    have hinfo : plainInfo (mkPlain a ts) a.sid = some a.toClientInfo := by
      unfold plainInfo
      simp only [fenc, fflag, fuid, fmeth, Option.bind_eq_bind, Option.bind_some, Option.pure_def, bind, pure]
      rw [strim, trim_padded a.method _ hmh hml, flag_roundtrip]
      rfl
    rw [hsidv, hinfo]
    simp only [htsv, hwin, if_true]

/-! ## The reply -/

/-- the ServerHello spelled out: 6 header bytes, random = nonce ‖ sealed[0:20], 46 bytes up to the key
share payload, key share = sealed[20:48] ‖ 4 random bytes, 6 bytes of supported_versions -/
theorem serverHello_layout (sid nonce ek pad : Bytes) (hn : nonce.length = 12) (hek : ek.length = 48) (hp : pad.length = 4) :
    composeServerHello sid nonce ek pad =
      [2, 0, 0, 118, 3, 3] ++ (nonce ++ ek.take 20) ++
      ([32] ++ sid ++ [19, 2, 0, 0, 46, 0, 51, 0, 36, 0, 29, 0, 32]) ++ (ek.drop 20 ++ pad) ++ [0, 43, 0, 2, 3, 4] := by
  have hke : keyExchange ek pad = ek.drop 20 ++ pad := by
    unfold keyExchange
    simp only [shKeyExchangeLen, shKsKeyLo, shKsKeyHi, shKsPadLo, shKsPadHi]
    have hs : slice ek 20 48 = ek.drop 20 := by
      simp only [slice]; exact List.take_of_length_le (by simp; omega)
    have hdl : (ek.drop 20).length = 28 := by simp; omega
    rw [hs]
    have h1 : blit (zeros 32) 0 32 (ek.drop 20) = ek.drop 20 ++ zeros 4 := by
      have hz : zeros 32 = [] ++ zeros 32 ++ [] := by simp
      rw [hz, blit_short [] (zeros 32) [] (ek.drop 20) 0 32 rfl (by simp [zeros]) (by simp [zeros]; omega)]
      simp [zeros_drop, hdl]
    rw [h1]
    have h2 : ek.drop 20 ++ zeros 4 = ek.drop 20 ++ zeros 4 ++ [] := by simp
    rw [h2, blit_mid (ek.drop 20) (zeros 4) [] pad 28 32 hdl.symm (by rw [hdl]; simp [zeros]) (by simp [zeros, hp])]
    simp
  unfold composeServerHello
  rw [hke]
  have hsn : slice nonce shRandNonceLo shRandNonceHi = nonce := by
    simp only [shRandNonceLo, shRandNonceHi, slice]; simp; exact List.take_of_length_le (by omega)
  have hsk : slice ek shRandKeyLo shRandKeyHi = ek.take 20 := by
    simp only [shRandKeyLo, shRandKeyHi, slice]; simp
  rw [hsn, hsk]
  simp only [u8s, shPiece0, shPiece1, shPiece2, shPiece4, shPiece6, shPiece7, shPiece8, shPiece10, shKeyShareHdr, List.map]
  simp [List.append_assoc]

theorem gen_reply_structure :
    shNumPieces = 11 ∧ shEchoesSessionId = true ∧ shPiece9IsKeyShare = true ∧ shConcatInOrder = true ∧
    replyConcat = true ∧ recLayerShape = true ∧ tlsReplyArgs = true ∧ tlsResponderArgs = true ∧
    cReplyOpenArgs = true ∧ cReplyFirstRecord = true ∧ cHelloRandomIsPub = true ∧
    cHelloSidLo = 0 ∧ cHelloSidHi = 32 ∧ cHelloKsLo = 32 ∧ cHelloKsHi = 64 := by decide

/-- **C06 (reply, offsets).** For every 32-byte session id, 12-byte nonce, 48-byte sealed key, 4 random
bytes and certificate blob, the client's fixed offsets (`buf[6:38] ‖ buf[84:116]`, then `[0:12]` and
`[12:60]`) applied to the first record of the server's `composeReply` return the nonce and the
sealed key. -/
theorem c06_reply_extract (sid nonce ek cert pad : Bytes) (hsid : sid.length = 32) (hn : nonce.length = 12)
    (hek : ek.length = 48) (hp : pad.length = 4) :
    ∃ r, composeReply sid nonce ek cert pad = some r ∧ clientExtract r = some (nonce, ek) := by
  have hsh := serverHello_layout sid nonce ek pad hn hek hp
  have hshl : (composeServerHello sid nonce ek pad).length = 122 := by
    rw [hsh]; simp [hsid, hn, hek, hp]
  unfold composeReply
  simp only [replyRecTypes, replyRecInputs, replyVersion, u8s, List.map]
  refine ⟨_, rfl, ?_⟩
  unfold clientExtract firstRecordBuf addRecordLayer
  simp only [hshl]
  have hb2 : beBytes 2 122 = [0, 122] := by decide
  rw [hb2]
  -- the whole reply, with the first record's payload isolated
  have hlen : 5 ≤ ([UInt8.ofNat 22] ++ [UInt8.ofNat 3, UInt8.ofNat 3] ++ [0, 122] ++ composeServerHello sid nonce ek pad ++
      ([UInt8.ofNat 20] ++ [UInt8.ofNat 3, UInt8.ofNat 3] ++ beBytes 2 [(1 : UInt8)].length ++ [1]) ++
      ([UInt8.ofNat 23] ++ [UInt8.ofNat 3, UInt8.ofNat 3] ++ beBytes 2 cert.length ++ cert)).length := by
    simp
  generalize hR : ([UInt8.ofNat 20] ++ [UInt8.ofNat 3, UInt8.ofNat 3] ++ beBytes 2 [(1 : UInt8)].length ++ [1]) ++
      ([UInt8.ofNat 23] ++ [UInt8.ofNat 3, UInt8.ofNat 3] ++ beBytes 2 cert.length ++ cert) = rest
  have hassoc : [UInt8.ofNat 22] ++ [UInt8.ofNat 3, UInt8.ofNat 3] ++ [0, 122] ++ composeServerHello sid nonce ek pad ++
      ([UInt8.ofNat 20] ++ [UInt8.ofNat 3, UInt8.ofNat 3] ++ beBytes 2 [(1 : UInt8)].length ++ [1]) ++
      ([UInt8.ofNat 23] ++ [UInt8.ofNat 3, UInt8.ofNat 3] ++ beBytes 2 cert.length ++ cert) =
      [22, 3, 3, 0, 122] ++ composeServerHello sid nonce ek pad ++ rest := by
    rw [← hR]; simp [List.append_assoc]
  rw [hassoc]
  have hl5 : ¬ ([22, 3, 3, 0, 122] ++ composeServerHello sid nonce ek pad ++ rest).length < 5 := by simp
  have hdl : beNat (slice ([22, 3, 3, 0, 122] ++ composeServerHello sid nonce ek pad ++ rest) 3 5) = 122 := by
    have : slice ([22, 3, 3, 0, 122] ++ composeServerHello sid nonce ek pad ++ rest) 3 5 = [0, 122] := by
      have h' : ([22, 3, 3, 0, 122] : Bytes) ++ composeServerHello sid nonce ek pad ++ rest =
          [22, 3, 3] ++ [0, 122] ++ (composeServerHello sid nonce ek pad ++ rest) := by simp
      rw [h']; exact slice_mid' _ _ _ 3 5 rfl rfl
    rw [this]; decide
  simp only [hl5, if_false, hdl, cReplyBufLen, show ¬ (122 > 1024) by omega]
  have hl127 : ¬ ([22, 3, 3, 0, 122] ++ composeServerHello sid nonce ek pad ++ rest).length < 5 + 122 := by
    simp [hshl]
  simp only [hl127, if_false]
  have hpay : slice ([22, 3, 3, 0, 122] ++ composeServerHello sid nonce ek pad ++ rest) 5 (5 + 122) = composeServerHello sid nonce ek pad :=
    slice_mid' _ _ _ 5 (5 + 122) rfl (by rw [hshl]; rfl)
  rw [hpay]
  -- the 1024-byte buffer
  have hfit : fit 1024 (composeServerHello sid nonce ek pad) = composeServerHello sid nonce ek pad ++ zeros 902 := by
    simp only [fit, hshl]
    rw [List.take_of_length_le (by rw [hshl]; omega)]
  rw [hfit, hsh]
  simp only [cReplyRandLo, cReplyRandHi, cReplyKsLo, cReplyKsHi, cReplyNonceLo, cReplyNonceHi, cReplyCtLo, cReplyCtHi]
  have hA : ([2, 0, 0, 118, 3, 3] : Bytes).length = 6 := rfl
  have hNE : (nonce ++ ek.take 20).length = 32 := by simp [hn, hek]
  have hB : ([32] ++ sid ++ [19, 2, 0, 0, 46, 0, 51, 0, 36, 0, 29, 0, 32] : Bytes).length = 46 := by simp [hsid]
  have hK : (ek.drop 20 ++ pad).length = 32 := by simp [hek, hp]
  have s1 : slice ([2, 0, 0, 118, 3, 3] ++ (nonce ++ ek.take 20) ++
      ([32] ++ sid ++ [19, 2, 0, 0, 46, 0, 51, 0, 36, 0, 29, 0, 32]) ++ (ek.drop 20 ++ pad) ++ [0, 43, 0, 2, 3, 4] ++ zeros 902) 6 38 =
      nonce ++ ek.take 20 := by
    have h' : ([2, 0, 0, 118, 3, 3] : Bytes) ++ (nonce ++ ek.take 20) ++
        ([32] ++ sid ++ [19, 2, 0, 0, 46, 0, 51, 0, 36, 0, 29, 0, 32]) ++ (ek.drop 20 ++ pad) ++ [0, 43, 0, 2, 3, 4] ++ zeros 902 =
        [2, 0, 0, 118, 3, 3] ++ (nonce ++ ek.take 20) ++
        (([32] ++ sid ++ [19, 2, 0, 0, 46, 0, 51, 0, 36, 0, 29, 0, 32]) ++ (ek.drop 20 ++ pad) ++ [0, 43, 0, 2, 3, 4] ++ zeros 902) := by
      simp only [List.append_assoc]
    rw [h']; exact slice_mid' _ _ _ 6 38 rfl (by rw [hA, hNE])
  have s2 : slice ([2, 0, 0, 118, 3, 3] ++ (nonce ++ ek.take 20) ++
      ([32] ++ sid ++ [19, 2, 0, 0, 46, 0, 51, 0, 36, 0, 29, 0, 32]) ++ (ek.drop 20 ++ pad) ++ [0, 43, 0, 2, 3, 4] ++ zeros 902) 84 116 =
      ek.drop 20 ++ pad := by
    have h' : ([2, 0, 0, 118, 3, 3] : Bytes) ++ (nonce ++ ek.take 20) ++
        ([32] ++ sid ++ [19, 2, 0, 0, 46, 0, 51, 0, 36, 0, 29, 0, 32]) ++ (ek.drop 20 ++ pad) ++ [0, 43, 0, 2, 3, 4] ++ zeros 902 =
        ([2, 0, 0, 118, 3, 3] ++ (nonce ++ ek.take 20) ++ ([32] ++ sid ++ [19, 2, 0, 0, 46, 0, 51, 0, 36, 0, 29, 0, 32])) ++
        (ek.drop 20 ++ pad) ++ ([0, 43, 0, 2, 3, 4] ++ zeros 902) := by
      simp only [List.append_assoc]
    rw [h']
    exact slice_mid' _ _ _ 84 116 (by simp only [List.length_append, hA, hNE, hB]) (by simp only [List.length_append, hA, hNE, hB, hK])
  rw [s1, s2]
  have henc : nonce ++ ek.take 20 ++ (ek.drop 20 ++ pad) = nonce ++ ek ++ pad := by
    simp only [List.append_assoc]; rw [← List.append_assoc (ek.take 20), List.take_append_drop]
  rw [henc]
  have e1 : slice (nonce ++ ek ++ pad) 0 12 = nonce := by
    rw [List.append_assoc]; exact slice_prefix _ _ 12 hn.symm
  have e2 : slice (nonce ++ ek ++ pad) 12 60 = ek := slice_mid' _ _ _ 12 60 hn.symm (by rw [hn, hek])
  rw [e1, e2]

/-- **C06 (reply, key).** Hence, for every lawful cipher instance, the direct client ends up with
exactly the 32-byte key the server sealed under the shared secret. -/
theorem c06_reply (C : Crypto) (hL : Lawful C) (sid shared key nonce cert pad : Bytes)
    (hsid : sid.length = 32) (hk : key.length = 32) (hn : nonce.length = 12) (hp : pad.length = 4) :
    ∃ r, tlsReply C sid shared key nonce cert pad = some r ∧ tlsClientKey C shared r = some key := by
  have hfn : fit 12 nonce = nonce := fit_eq _ _ hn
  have hsl : (C.gcmSeal shared nonce key).length = 48 := by rw [hL.seal_len, hk]
  have hfe : fit 48 (C.gcmSeal shared nonce key) = C.gcmSeal shared nonce key := fit_eq _ _ hsl
  obtain ⟨r, hr, hx⟩ := c06_reply_extract sid nonce (C.gcmSeal shared nonce key) cert pad hsid hn hsl hp
  refine ⟨r, by simp only [tlsReply, hfn, hfe, hr], ?_⟩
  simp only [tlsClientKey, hx, hL.open_seal, Option.map_some, fit_eq 32 key hk]

/-- **C06 (CDN transport).** The 60-byte binary message `nonce ‖ sealed key` is read back by the
client's `[:12]` / `[12:]` split; and the `hidden` bytes `rand ‖ ct` are taken apart by the server
into the same `rand` and `ct`. -/
theorem c06_ws (C : Crypto) (hL : Lawful C) (shared key nonce : Bytes) (hk : key.length = 32) (hn : nonce.length = 12) :
    wsClientKey C shared (wsReply C shared key nonce) = some key := by
  have hfn : fit wsReplyNonceLen nonce = nonce := fit_eq _ _ (by rw [hn]; rfl)
  have hsl : (C.gcmSeal shared nonce key).length = 48 := by rw [hL.seal_len, hk]
  unfold wsClientKey wsReply
  simp only [hfn, cWsReplyLen, cWsReplyLo, cWsReplyHi, cWsNonceLo, cWsNonceHi, cWsCtLo]
  have hl : (nonce ++ C.gcmSeal shared nonce key).length = 60 := by simp [hn, hsl]
  have h0 : slice (nonce ++ C.gcmSeal shared nonce key) 0 60 = nonce ++ C.gcmSeal shared nonce key := by
    simp only [slice, List.drop_zero]; exact List.take_of_length_le (by omega)
  have h1 : slice (nonce ++ C.gcmSeal shared nonce key) 0 12 = nonce := slice_prefix _ _ 12 hn.symm
  have h2 : (nonce ++ C.gcmSeal shared nonce key).drop 12 = C.gcmSeal shared nonce key := List.drop_left' hn
  simp only [hl, ne_eq, not_true_eq_false, if_false, h0, h1, h2, hL.open_seal, Option.map_some, fit_eq 32 key hk]

theorem c06_ws_carrier (C : Crypto) (sk rand ct secret : Bytes) (hr : rand.length = 32) (hc : ct.length = 64)
    (hdh : C.dh sk rand = some secret) :
    wsExtract C sk (rand ++ ct) = .ok rand ct (fit 32 secret) := by
  unfold wsExtract
  simp only [wsHiddenMin, wsRandLo, wsRandHi, wsCtFrom, wsCtLen, wsCtCopyFrom]
  have hl : ¬ (rand ++ ct).length < 96 := by simp [hr, hc]
  have h1 : slice (rand ++ ct) 0 32 = rand := slice_prefix _ _ 32 hr.symm
  have h2 : (rand ++ ct).drop 32 = ct := List.drop_left' hr
  simp only [hl, if_false, h1, fit_eq 32 rand hr, hdh, h2, hc, ne_eq, not_true_eq_false, fit_eq 64 ct hc]

theorem gen_ws_structure : cWsHidden = true ∧ cWsOpenKey = true ∧ wsReplyArgs = true ∧ wsHiddenHeader = true ∧
    umShape = true ∧ parsersRecover = 3 := by decide

/-! ## The direct transport carries the payload: ClientHello of any extension order -/

/-- offset, inside the handshake message, of the first extension -/
def extsOffset (ch : CH) : Nat := 4 + 2 + 32 + 1 + ch.sid.length + 2 + ch.suites.length + 1 + ch.comp.length + 2

theorem gen_hello_structure :
    chMagic = [22, 3, 1] ∧ chMagicAtLo = 0 ∧ chMagicAtHi = 3 ∧ chRecHdr = 5 ∧ chType = 1 ∧ chLenCheck = true ∧
    chAdvances = ["1", "3", "2", "32", "1", "sessionIdLen", "2", "cipherSuitesLen", "1", "compressionMethodsLen", "2"] ∧
    chExtsRestOfBuffer = true ∧ extTotalIsLen = true ∧ cHelloRecType = 22 ∧ cHelloRecVer = 769 ∧
    chTakes = ["handshakeType := peeled[pointer]", "length := int(u32(append([]byte{0x00}, peeled[pointer:pointer+3]...)))",
      "clientVersion := peeled[pointer : pointer+2]", "random := peeled[pointer : pointer+32]", "sessionIdLen := int(peeled[pointer])",
      "sessionId := peeled[pointer : pointer+sessionIdLen]", "cipherSuitesLen := int(u16(peeled[pointer : pointer+2]))",
      "cipherSuites := peeled[pointer : pointer+cipherSuitesLen]", "compressionMethodsLen := int(peeled[pointer])",
      "compressionMethods := peeled[pointer : pointer+compressionMethodsLen]", "extensionsLen := int(u16(peeled[pointer : pointer+2]))"] ∧
    extLoop = ["for pointer < totalLen", "var typ [2]byte", "copy(typ[:], input[pointer:pointer+2])", "pointer += 2",
      "length := int(u16(input[pointer : pointer+2]))", "pointer += 2", "data := input[pointer : pointer+length]",
      "pointer += length", "ret[typ] = data"] := by decide

/-- the header walk of `parseClientHello` on a serialized hello -/
theorem parseClientHello_serialize (ch : CH) (hv : ch.version.length = 2) (hr : ch.random.length = 32)
    (hsl : ch.sid.length < 256) (hcs : ch.suites.length < 65536) (hcm : ch.comp.length < 256)
    (hel : (serExts ch.exts).length < 65536)
    (hex : ∀ e ∈ ch.exts, e.typ < 65536 ∧ e.data.length < 65536) (hbody : (chBody ch).length < 16777216) :
    parseClientHello (record22 (serializeCH ch)) =
      some ⟨serializeCH ch, ch.random, ch.sid, locs (extsOffset ch) ch.exts⟩ := by
  obtain ⟨g1, g2, g3, g4, g5, _, _, _, _, g6, g7, _⟩ := gen_hello_structure
  generalize hmsg : serializeCH ch = msg
  have hrec : record22 msg = [22, 3, 1] ++ (beBytes 2 msg.length ++ msg) := by
    unfold record22; rw [g6, g7]
    have : beBytes 2 769 = [3, 1] := by decide
    rw [this]; simp [List.append_assoc]
  have hmagic : take? (record22 msg) chMagicAtLo (chMagicAtHi - chMagicAtLo) = some [22, 3, 1] := by
    rw [hrec, g2, g3]
    have : ([22, 3, 1] : Bytes) ++ (beBytes 2 msg.length ++ msg) = [] ++ [22, 3, 1] ++ (beBytes 2 msg.length ++ msg) := by simp
    rw [this]; exact take?_mid _ _ _ _ _ rfl rfl
  have hmeq : ¬ (([22, 3, 1] : Bytes) ≠ List.map UInt8.ofNat chMagic) := by rw [g1]; decide
  have hlen5 : ¬ (record22 msg).length < chRecHdr := by
    rw [hrec, g4]; simp [beBytes_length]
  have hdrop : List.drop chRecHdr (record22 msg) = msg := by
    rw [hrec, g4]
    have : ([22, 3, 1] : Bytes) ++ (beBytes 2 msg.length ++ msg) = ([22, 3, 1] ++ beBytes 2 msg.length) ++ msg := by simp
    rw [this]; exact List.drop_left' (by simp [beBytes_length])
  -- the message, field by field
  have hm : msg = [1] ++ beBytes 3 (chBody ch).length ++ (ch.version ++ ch.random ++ [UInt8.ofNat ch.sid.length] ++ ch.sid ++
      be16 ch.suites.length ++ ch.suites ++ [UInt8.ofNat ch.comp.length] ++ ch.comp ++ be16 (serExts ch.exts).length ++ serExts ch.exts) := by
    rw [← hmsg]; rfl
  have hL3 : (beBytes 3 (chBody ch).length).length = 3 := beBytes_length _ _
  have hbl : (chBody ch).length = 2 + 32 + 1 + ch.sid.length + 2 + ch.suites.length + 1 + ch.comp.length + 2 + (serExts ch.exts).length := by
    simp [chBody, hv, hr, be16]; omega
  have hml : msg.length = 4 + (chBody ch).length := by
    rw [← hmsg]; simp [serializeCH, hL3]; omega
  have f0 : msg[0]? = some 1 := by rw [hm]; simp
  have f1 : take? msg 1 3 = some (beBytes 3 (chBody ch).length) := by
    rw [hm]; exact take?_mid [1] _ _ 1 3 rfl hL3.symm
  have f1v : beNat (beBytes 3 (chBody ch).length) = msg.length - 4 := by
    rw [beNat_beBytes_lt 3 _ (by simpa using hbody), hml]; omega
  have f2 : take? msg 4 2 = some ch.version := by
    rw [hm]
    have : [1] ++ beBytes 3 (chBody ch).length ++ (ch.version ++ ch.random ++ [UInt8.ofNat ch.sid.length] ++ ch.sid ++
        be16 ch.suites.length ++ ch.suites ++ [UInt8.ofNat ch.comp.length] ++ ch.comp ++ be16 (serExts ch.exts).length ++ serExts ch.exts) =
        ([1] ++ beBytes 3 (chBody ch).length) ++ ch.version ++ (ch.random ++ [UInt8.ofNat ch.sid.length] ++ ch.sid ++
        be16 ch.suites.length ++ ch.suites ++ [UInt8.ofNat ch.comp.length] ++ ch.comp ++ be16 (serExts ch.exts).length ++ serExts ch.exts) := by
      simp only [List.append_assoc]
    rw [this]; exact take?_mid _ _ _ 4 2 (by simp [hL3]) hv.symm
  have f3 : take? msg 6 32 = some ch.random := by
    rw [hm]
    have : [1] ++ beBytes 3 (chBody ch).length ++ (ch.version ++ ch.random ++ [UInt8.ofNat ch.sid.length] ++ ch.sid ++
        be16 ch.suites.length ++ ch.suites ++ [UInt8.ofNat ch.comp.length] ++ ch.comp ++ be16 (serExts ch.exts).length ++ serExts ch.exts) =
        ([1] ++ beBytes 3 (chBody ch).length ++ ch.version) ++ ch.random ++ ([UInt8.ofNat ch.sid.length] ++ ch.sid ++
        be16 ch.suites.length ++ ch.suites ++ [UInt8.ofNat ch.comp.length] ++ ch.comp ++ be16 (serExts ch.exts).length ++ serExts ch.exts) := by
      simp only [List.append_assoc]
    rw [this]; exact take?_mid _ _ _ 6 32 (by simp [hL3, hv]) hr.symm
  have f4 : msg[38]? = some (UInt8.ofNat ch.sid.length) := by
    rw [hm]
    have : [1] ++ beBytes 3 (chBody ch).length ++ (ch.version ++ ch.random ++ [UInt8.ofNat ch.sid.length] ++ ch.sid ++
        be16 ch.suites.length ++ ch.suites ++ [UInt8.ofNat ch.comp.length] ++ ch.comp ++ be16 (serExts ch.exts).length ++ serExts ch.exts) =
        ([1] ++ beBytes 3 (chBody ch).length ++ ch.version ++ ch.random) ++ [UInt8.ofNat ch.sid.length] ++ (ch.sid ++
        be16 ch.suites.length ++ ch.suites ++ [UInt8.ofNat ch.comp.length] ++ ch.comp ++ be16 (serExts ch.exts).length ++ serExts ch.exts) := by
      simp only [List.append_assoc]
    rw [this]; exact get?_mid _ _ _ 38 (by simp [hL3, hv, hr])
  have f4v : (UInt8.ofNat ch.sid.length).toNat = ch.sid.length := by
    rw [UInt8.toNat_ofNat']; exact Nat.mod_eq_of_lt hsl
  have f5 : take? msg 39 ch.sid.length = some ch.sid := by
    rw [hm]
    have : [1] ++ beBytes 3 (chBody ch).length ++ (ch.version ++ ch.random ++ [UInt8.ofNat ch.sid.length] ++ ch.sid ++
        be16 ch.suites.length ++ ch.suites ++ [UInt8.ofNat ch.comp.length] ++ ch.comp ++ be16 (serExts ch.exts).length ++ serExts ch.exts) =
        ([1] ++ beBytes 3 (chBody ch).length ++ ch.version ++ ch.random ++ [UInt8.ofNat ch.sid.length]) ++ ch.sid ++ (
        be16 ch.suites.length ++ ch.suites ++ [UInt8.ofNat ch.comp.length] ++ ch.comp ++ be16 (serExts ch.exts).length ++ serExts ch.exts) := by
      simp only [List.append_assoc]
    rw [this]; exact take?_mid _ _ _ 39 _ (by simp [hL3, hv, hr]) rfl
  have f6 : rd16 msg (39 + ch.sid.length) = some ch.suites.length := by
    rw [hm]
    have : [1] ++ beBytes 3 (chBody ch).length ++ (ch.version ++ ch.random ++ [UInt8.ofNat ch.sid.length] ++ ch.sid ++
        be16 ch.suites.length ++ ch.suites ++ [UInt8.ofNat ch.comp.length] ++ ch.comp ++ be16 (serExts ch.exts).length ++ serExts ch.exts) =
        ([1] ++ beBytes 3 (chBody ch).length ++ ch.version ++ ch.random ++ [UInt8.ofNat ch.sid.length] ++ ch.sid) ++
        be16 ch.suites.length ++ (ch.suites ++ [UInt8.ofNat ch.comp.length] ++ ch.comp ++ be16 (serExts ch.exts).length ++ serExts ch.exts) := by
      simp only [List.append_assoc]
    rw [this]; exact rd16_be16' _ _ _ _ hcs (by simp [hL3, hv, hr]; omega)
  have f7 : take? msg (39 + ch.sid.length + 2) ch.suites.length = some ch.suites := by
    rw [hm]
    have : [1] ++ beBytes 3 (chBody ch).length ++ (ch.version ++ ch.random ++ [UInt8.ofNat ch.sid.length] ++ ch.sid ++
        be16 ch.suites.length ++ ch.suites ++ [UInt8.ofNat ch.comp.length] ++ ch.comp ++ be16 (serExts ch.exts).length ++ serExts ch.exts) =
        ([1] ++ beBytes 3 (chBody ch).length ++ ch.version ++ ch.random ++ [UInt8.ofNat ch.sid.length] ++ ch.sid ++
        be16 ch.suites.length) ++ ch.suites ++ ([UInt8.ofNat ch.comp.length] ++ ch.comp ++ be16 (serExts ch.exts).length ++ serExts ch.exts) := by
      simp only [List.append_assoc]
    rw [this]; exact take?_mid _ _ _ _ _ (by simp [hL3, hv, hr, be16]; omega) rfl
  have f8 : msg[39 + ch.sid.length + 2 + ch.suites.length]? = some (UInt8.ofNat ch.comp.length) := by
    rw [hm]
    have : [1] ++ beBytes 3 (chBody ch).length ++ (ch.version ++ ch.random ++ [UInt8.ofNat ch.sid.length] ++ ch.sid ++
        be16 ch.suites.length ++ ch.suites ++ [UInt8.ofNat ch.comp.length] ++ ch.comp ++ be16 (serExts ch.exts).length ++ serExts ch.exts) =
        ([1] ++ beBytes 3 (chBody ch).length ++ ch.version ++ ch.random ++ [UInt8.ofNat ch.sid.length] ++ ch.sid ++
        be16 ch.suites.length ++ ch.suites) ++ [UInt8.ofNat ch.comp.length] ++ (ch.comp ++ be16 (serExts ch.exts).length ++ serExts ch.exts) := by
      simp only [List.append_assoc]
    rw [this]; exact get?_mid _ _ _ _ (by simp [hL3, hv, hr, be16]; omega)
  have f8v : (UInt8.ofNat ch.comp.length).toNat = ch.comp.length := by
    rw [UInt8.toNat_ofNat']; exact Nat.mod_eq_of_lt hcm
  have f9 : take? msg (39 + ch.sid.length + 2 + ch.suites.length + 1) ch.comp.length = some ch.comp := by
    rw [hm]
    have : [1] ++ beBytes 3 (chBody ch).length ++ (ch.version ++ ch.random ++ [UInt8.ofNat ch.sid.length] ++ ch.sid ++
        be16 ch.suites.length ++ ch.suites ++ [UInt8.ofNat ch.comp.length] ++ ch.comp ++ be16 (serExts ch.exts).length ++ serExts ch.exts) =
        ([1] ++ beBytes 3 (chBody ch).length ++ ch.version ++ ch.random ++ [UInt8.ofNat ch.sid.length] ++ ch.sid ++
        be16 ch.suites.length ++ ch.suites ++ [UInt8.ofNat ch.comp.length]) ++ ch.comp ++ (be16 (serExts ch.exts).length ++ serExts ch.exts) := by
      simp only [List.append_assoc]
    rw [this]; exact take?_mid _ _ _ _ _ (by simp [hL3, hv, hr, be16]; omega) rfl
  have f10 : rd16 msg (39 + ch.sid.length + 2 + ch.suites.length + 1 + ch.comp.length) = some (serExts ch.exts).length := by
    rw [hm]
    have : [1] ++ beBytes 3 (chBody ch).length ++ (ch.version ++ ch.random ++ [UInt8.ofNat ch.sid.length] ++ ch.sid ++
        be16 ch.suites.length ++ ch.suites ++ [UInt8.ofNat ch.comp.length] ++ ch.comp ++ be16 (serExts ch.exts).length ++ serExts ch.exts) =
        ([1] ++ beBytes 3 (chBody ch).length ++ ch.version ++ ch.random ++ [UInt8.ofNat ch.sid.length] ++ ch.sid ++
        be16 ch.suites.length ++ ch.suites ++ [UInt8.ofNat ch.comp.length] ++ ch.comp) ++ be16 (serExts ch.exts).length ++ serExts ch.exts := by
      simp only [List.append_assoc]
    rw [this]; exact rd16_be16' _ _ _ _ hel (by simp [hL3, hv, hr, be16]; omega)
  have f11 : parseExts msg (msg.length + 1) (39 + ch.sid.length + 2 + ch.suites.length + 1 + ch.comp.length + 2) =
      some (locs (extsOffset ch) ch.exts) := by
    have hpre : msg = ([1] ++ beBytes 3 (chBody ch).length ++ ch.version ++ ch.random ++ [UInt8.ofNat ch.sid.length] ++ ch.sid ++
        be16 ch.suites.length ++ ch.suites ++ [UInt8.ofNat ch.comp.length] ++ ch.comp ++ be16 (serExts ch.exts).length) ++ serExts ch.exts := by
      rw [hm]; simp only [List.append_assoc]
    have hpl : ([1] ++ beBytes 3 (chBody ch).length ++ ch.version ++ ch.random ++ [UInt8.ofNat ch.sid.length] ++ ch.sid ++
        be16 ch.suites.length ++ ch.suites ++ [UInt8.ofNat ch.comp.length] ++ ch.comp ++ be16 (serExts ch.exts).length).length = extsOffset ch := by
      simp [hL3, hv, hr, be16, extsOffset]; omega
    have hoff : 39 + ch.sid.length + 2 + ch.suites.length + 1 + ch.comp.length + 2 = extsOffset ch := by
      simp [extsOffset]
    have hfuel : ch.exts.length < msg.length + 1 := by
      have h4 : ∀ es : List Ext, es.length ≤ (serExts es).length := by
        intro es; induction es with
        | nil => simp [serExts]
        | cons e es ih => rw [serExts_cons, List.length_append, serExt_length]; simp; omega
      have := h4 ch.exts
      rw [hml, hbl]; omega
    rw [hoff]
    obtain ⟨pre, hpre', hpl'⟩ : ∃ pre, msg = pre ++ serExts ch.exts ∧ pre.length = extsOffset ch := ⟨_, hpre, hpl⟩
    have key := parseExts_correct ch.exts pre (msg.length + 1) hex hfuel
    rw [hpl', ← hpre'] at key
    exact key
  unfold parseClientHello
  simp only [bind, Option.bind, pure]
  rw [hdrop]
  simp only [hmagic, hmeq, if_false, hlen5, f0, g5, f1, f1v, f2, f3, f4, f4v, f5, f6, f7, f8, f8v, f9, f10, f11,
    ne_eq, not_true_eq_false, show (1 : UInt8).toNat = 1 from rfl]

/-- **C06 (direct transport, any extension order).** Take ANY well-formed ClientHello: arbitrary
version/suites/compression, arbitrary extensions `before` and `after` in any order (none of the later
ones being another key_share), a key_share extension whose entry list contains an X25519 entry of 32
bytes at ANY position after arbitrary other groups.  The server's parser, applied to the record the
client writes, recovers the hello's random and session id ‖ that X25519 share: with `random` = the
client's ephemeral public key and session id ‖ share = the 64-byte sealed block, the server obtains
exactly the client's payload. -/
theorem c06_tls_carrier (C : Crypto) (sk : Bytes) (ch : CH) (before after : List Ext) (ksBefore ksAfter : List KsEntry)
    (key secret : Bytes)
    (hv : ch.version.length = 2) (hr : ch.random.length = 32) (hsid : ch.sid.length = 32)
    (hcs : ch.suites.length < 65536) (hcm : ch.comp.length < 256) (hel : (serExts ch.exts).length < 65536)
    (hbody : (chBody ch).length < 16777216)
    (hexts : ch.exts = before ++ [⟨51, ksData (ksBefore ++ [⟨29, key⟩] ++ ksAfter)⟩] ++ after)
    (hex : ∀ e ∈ ch.exts, e.typ < 65536 ∧ e.data.length < 65536)
    (hafter : ∀ e ∈ after, e.typ ≠ 51)
    (hkb : ∀ k ∈ ksBefore, k.group ≠ 29 ∧ k.group < 65536 ∧ k.key.length < 65536)
    (hkey : key.length = 32)
    (hdh : C.dh sk ch.random = some secret) :
    tlsExtract C sk (record22 (serializeCH ch)) = .ok ch.random (ch.sid ++ key) (fit 32 secret) := by
  have hparse := parseClientHello_serialize ch hv hr (by omega) hcs hcm hel hex hbody
  unfold tlsExtract
  rw [hparse]
  simp only [unmarshalCH, fit_eq 32 ch.random hr, hdh, gen_ks.2.2.1]
  -- the key_share extension is the one that is looked up
  have hlook := lookupExt_last 51 (extsOffset ch) before after ⟨51, ksData (ksBefore ++ [⟨29, key⟩] ++ ksAfter)⟩ rfl hafter
  rw [hexts, hlook]
  -- the message around the key-share data
  generalize hKD : (ksBefore ++ [⟨29, key⟩] ++ ksAfter : List KsEntry) = entries at *
  have hksd : ksData entries = be16 ((entries.map serKs).flatten).length ++
      ((ksBefore.map serKs).flatten ++ serKs ⟨29, key⟩ ++ (ksAfter.map serKs).flatten) := by
    rw [← hKD]; simp [ksData, List.append_assoc]
  have hdl : (ksData entries).length < 65536 := by
    have := (hex ⟨51, ksData entries⟩ (by rw [hexts]; simp)).2
    exact this
  have htot : ((entries.map serKs).flatten).length < 65536 := by
    have : (ksData entries).length = 2 + ((entries.map serKs).flatten).length := by simp [ksData, be16]; omega
    omega
  -- serializeCH ch = P ++ ksData ++ Q with P.length = the located start
  obtain ⟨P, Q, hP, hPl⟩ : ∃ P Q, serializeCH ch = P ++ ksData entries ++ Q ∧
      P.length = extsOffset ch + (serExts before).length + 4 := by
    refine ⟨[1] ++ beBytes 3 (chBody ch).length ++ (ch.version ++ ch.random ++ [UInt8.ofNat ch.sid.length] ++ ch.sid ++
        be16 ch.suites.length ++ ch.suites ++ [UInt8.ofNat ch.comp.length] ++ ch.comp ++ be16 (serExts ch.exts).length) ++
        serExts before ++ be16 51 ++ be16 (ksData entries).length, serExts after, ?_, ?_⟩
    · simp only [serializeCH, chBody, hexts, serExts_append, serExts_cons, serExt]
      simp [serExts, List.append_assoc]
    · simp [beBytes_length, hv, hr, hsid, be16, extsOffset]; omega
  simp only
  unfold parseKeyShare
  simp only
  have hrd : rd16 (serializeCH ch) (extsOffset ch + (serExts before).length + 4) = some ((entries.map serKs).flatten).length := by
    rw [hP, hksd]
    have : P ++ (be16 ((entries.map serKs).flatten).length ++ ((ksBefore.map serKs).flatten ++ serKs ⟨29, key⟩ ++ (ksAfter.map serKs).flatten)) ++ Q =
        P ++ be16 ((entries.map serKs).flatten).length ++ (((ksBefore.map serKs).flatten ++ serKs ⟨29, key⟩ ++ (ksAfter.map serKs).flatten) ++ Q) := by
      simp only [List.append_assoc]
    rw [this]; exact rd16_be16' _ _ _ _ htot hPl.symm
  rw [hrd]
  simp only
  have hloop : ksLoop (serializeCH ch) (extsOffset ch + (serExts before).length + 4) ((entries.map serKs).flatten).length
      ((serializeCH ch).length + 1) 2 = some key := by
    have hdecomp : serializeCH ch = (P ++ be16 ((entries.map serKs).flatten).length) ++ (ksBefore.map serKs).flatten ++ serKs ⟨29, key⟩ ++
        ((ksAfter.map serKs).flatten ++ Q) := by
      rw [hP, hksd]; simp only [List.append_assoc]
    have hflat : ((entries.map serKs).flatten).length =
        ((ksBefore.map serKs).flatten).length + (serKs ⟨29, key⟩).length + ((ksAfter.map serKs).flatten).length := by
      rw [← hKD]
      simp only [List.map_append, List.flatten_append, List.length_append, List.map_cons, List.map_nil, List.flatten_cons,
        List.flatten_nil, List.append_nil]
    have hfuel : ksBefore.length < (serializeCH ch).length + 1 := by
      have h4 : ∀ ks : List KsEntry, ks.length ≤ ((ks.map serKs).flatten).length := by
        intro ks; induction ks with
        | nil => simp
        | cons k ks ih => simp only [List.map_cons, List.flatten_cons, List.length_append, serKs_length, List.length_cons]; omega
      have := h4 ksBefore
      rw [hdecomp]; simp only [List.length_append]; omega
    conv => lhs; arg 1; rw [hdecomp]
    exact ksLoop_find ksBefore _ _ _ 2 _ _ key (by simp [be16, hPl]) hkb hkey
      (by rw [hflat, serKs_length]; omega) hfuel
  rw [hloop]
  simp only [gen_ks.2.2.2.1, List.length_append, hsid, hkey, ne_eq, not_true_eq_false, if_false]
  rw [fit_eq 64 _ (by simp [hsid, hkey])]

/-- non-vacuity of `c06_tls_carrier`: a hello with GREASE-like junk before and after the key_share
extension and another, larger share in front of the X25519 one; the hypotheses hold and the model
parser really returns random, session id ‖ share -/
def exBefore : List Ext := [⟨0x1a1a, []⟩, ⟨0, [1, 2, 3]⟩]
def exAfter : List Ext := [⟨43, [2, 3, 4]⟩]
def exKsBefore : List KsEntry := [⟨0x11ec, List.replicate 40 5⟩]
def exKsAfter : List KsEntry := [⟨23, List.replicate 9 6⟩]
def exKey : Bytes := List.replicate 32 4
def exCH : CH := ⟨[3, 3], List.replicate 32 9, List.replicate 32 7, [19, 1], [0],
  exBefore ++ [⟨51, ksData (exKsBefore ++ [⟨29, exKey⟩] ++ exKsAfter)⟩] ++ exAfter⟩

set_option maxRecDepth 20000 in
example : exCH.version.length = 2 ∧ exCH.random.length = 32 ∧ exCH.sid.length = 32 ∧ exKey.length = 32 ∧
    (∀ e ∈ exAfter, e.typ ≠ 51) ∧ (∀ k ∈ exKsBefore, k.group ≠ 29 ∧ k.group < 65536 ∧ k.key.length < 65536) ∧
    (serExts exCH.exts).length < 65536 ∧ (chBody exCH).length < 16777216 ∧
    (∀ e ∈ exCH.exts, e.typ < 65536 ∧ e.data.length < 65536) ∧
    (parseClientHello (record22 (serializeCH exCH))).map
        (fun p => (p.random, p.sid, parseKeyShare p.peeled (lookupExt 51 p.exts))) =
      some (exCH.random, exCH.sid, some exKey) := by
  refine ⟨rfl, rfl, rfl, rfl, by decide, by decide, by decide, by decide, by decide, by decide⟩

end C06

#print axioms C06.c06_fields
#print axioms C06.c06_reply
#print axioms C06.c06_ws
#print axioms C06.c06_tls_carrier
