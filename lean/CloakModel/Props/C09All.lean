import CloakModel.Props.C09
import CloakModel.Props.C09Target

/-! C09's check builds and audits both property files: the relay itself (`Props/C09.lean`) and the configured redirect
target (`Props/C09Target.lean`). -/
