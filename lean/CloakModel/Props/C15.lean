import CloakModel.Lemmas.PanelSpec
import CloakModel.Lemmas.PanelInv

/-! # C15 — Connections join the right session; the per-user session cap is never exceeded

Model: `Model/Panel.lean`. `getSession` is ONE atomic step because the extractor saw lookup, authorisation and
insert inside one `sessionsM` critical section (`gen_structure`); the authorisation is the list of translated
comparisons `Gen.Panel.authoriseChecks` (`gen_authorise` says what they mean). The premise "one active record per
user" is C17's invariant (`C17.c17_single_record`); C15's theorems are per record, as the property's quantifier
excludes that race.

A connection REFUSED by `GetSession` then cleans up (`Panel.refusedCleanup`, a separate step of the same admission).
On the tree before the C15 repair that step is `CloseSession(<the connection's own session id>)` and closes a session a
sibling connection has created in between: `c15_refused_cleanup_witness`. The full statement `c15_same_session_full`
lets every such clean-up (and the termination it may start) happen at any moment. -/

namespace C15
open Panel

/-! ## 1. What the extracted facts mean -/

/-- OBLIGATION: AuthoriseNewSession lets a new session through exactly when both credits are positive, the
expiry has not passed and the number of existing sessions is below the cap (whatever the order of the tests) -/
theorem gen_authorise (uc dc e now : Int) (n : Nat) (c : Int) :
    firstFail (Gen.Panel.authoriseChecks uc dc e now n c) = none ↔ (0 < uc ∧ 0 < dc ∧ now ≤ e ∧ (n : Int) < c) := by
  unfold Gen.Panel.authoriseChecks firstFail
  simp only [List.find?_cons, List.find?_nil]
  repeat' split
  all_goals simp_all
  all_goals omega

/-- OBLIGATION: AuthenticateUser (activation of a user) -/
theorem gen_authenticate (uc dc e now : Int) :
    firstFail (Gen.Panel.authenticateChecks uc dc e now) = none ↔ (0 < uc ∧ 0 < dc ∧ now ≤ e) := by
  unfold Gen.Panel.authenticateChecks firstFail
  simp only [List.find?_cons, List.find?_nil]
  repeat' split
  all_goals simp_all
  all_goals omega

/-- OBLIGATION: structure the model relies on — one critical section per operation; `len(u.sessions)` is what
is compared with the cap; the cap is read as `int(u32(·))` of what `i32ToB` wrote; credits/expiry read from
their own keys; the reply key is the joined session's key; the session gets the user's valve and is stored under
the id it was asked for; only bypass users skip the authorisation. -/
theorem gen_structure :
    Gen.Panel.getSessionUnderLock = true ∧ Gen.Panel.closeSessionUnderLock = true ∧
    Gen.Panel.closeAllSessionsUnderLock = true ∧ Gen.Panel.numSessionUnderLock = true ∧
    Gen.Panel.getUserUnderLock = true ∧ Gen.Panel.getBypassUserUnderLock = true ∧
    Gen.Panel.numExistingIsLen = true ∧ Gen.Panel.authoriseArgIsOwnUID = true ∧
    Gen.Panel.authoriseUnlessBypass = true ∧ Gen.Panel.capWrittenAsU32 = true ∧
    Gen.Panel.authoriseReads = [("sessionsCap", "int(u32", "SessionsCap"), ("upCredit", "int64(u64", "UpCredit"),
      ("downCredit", "int64(u64", "DownCredit"), ("expiryTime", "int64(u64", "ExpiryTime")] ∧
    Gen.Panel.authenticateReads = [("upRate", "int64(u64", "UpRate"), ("downRate", "int64(u64", "DownRate"),
      ("upCredit", "int64(u64", "UpCredit"), ("downCredit", "int64(u64", "DownCredit"), ("expiryTime", "int64(u64", "ExpiryTime")] ∧
    Gen.Panel.replyKeyIsSessionKey = true ∧ Gen.Panel.connAddedToJoinedSession = true ∧
    Gen.Panel.sessionKeyGetter = true ∧ Gen.Panel.valveFromUser = true ∧ Gen.Panel.sessionStoredUnderId = true := by
  decide

/-- OBLIGATION (C15 repair): a connection refused by `GetSession` does not name a session when it cleans up — it calls
the parameterless helper that terminates the record only if it is empty and retires it in the same `sessionsM`
section; `GetSession` refuses retired records. (`refusedCleanupCall` is the name the harness shim calls.) -/
theorem gen_refused_cleanup :
    Gen.Panel.refusedCleanupClosesOwnId = false ∧ Gen.Panel.refusedCleanupIfEmpty = true ∧
    Gen.Panel.refusedCleanupRetires = true ∧ Gen.Panel.refusedCleanupCall = "terminateIfEmpty" ∧
    Gen.Panel.getSessionChecksRetired = true := by decide

theorem capEff_nonneg (c : Int) : 0 ≤ capEff c := by unfold capEff; omega
theorem capEff_small (c : Int) (h0 : 0 ≤ c) (h1 : c < 4294967296) : capEff c = c := by unfold capEff; omega

/-! ## 2. Per-step facts -/

theorem authoriseNew_none {store : List (Nat × Info)} {uid : Nat} {now : Int} {n : Nat}
    (h : authoriseNew store uid now n = none) :
    ∃ i, lookup store uid = some i ∧ 0 < i.upCredit ∧ 0 < i.downCredit ∧ now ≤ i.expiry ∧ (n : Int) < capEff i.cap := by
  unfold authoriseNew at h
  split at h
  · cases h
  · rename_i i hi
    exact ⟨i, hi, (gen_authorise _ _ _ _ _ _).1 h⟩

-- `created_spec`, `joined_spec`, `other_spec` (what each answer of `getSession` says) are in `Lemmas/PanelSpec.lean`

/-! ## 3. The cap -/

/-- invariant for a user `u` whose stored cap never exceeds `C` -/
structure CapInv (u : Nat) (C : Nat) (s : St) : Prop where
  store : ∀ i, lookup s.store u = some i → capEff i.cap ≤ (C : Int)
  recs : ∀ (rid : Nat) (r : Rec), s.recs[rid]? = some r → r.uid = u → r.bypass = false → r.sessions.length ≤ C

def capOk (u : Nat) (C : Nat) : Ev → Prop
  | .put u' i => u' = u → capEff i.cap ≤ (C : Int)
  | _ => True

theorem capInv_closeLocked (u C : Nat) (s : St) (rid sid : Nat) (h : CapInv u C s) : CapInv u C (closeLocked s rid sid).1 := by
  unfold closeLocked
  split
  · exact h
  · rename_i r hr
    refine ⟨h.store, ?_⟩
    intro j x hx hu hb
    rcases getElem?_set_cases _ _ _ _ _ hx with ⟨hj, rfl⟩ | ⟨_, hx'⟩
    · have := h.recs rid r hr hu hb
      have := List.length_filter_le (fun e : Nat × Nat => e.1 != sid) r.sessions
      simp only; omega
    · exact h.recs j x hx' hu hb

theorem capInv_step (cfg : Cfg) (u C : Nat) (s : St) (e : Ev) (h : CapInv u C s) (he : capOk u C e) :
    CapInv u C (step cfg s e) := by
  cases e with
  | put u' i =>
    refine ⟨?_, h.recs⟩
    intro j hj
    simp only [step, put] at hj
    rw [lookup_cons] at hj
    by_cases hu : u' = u
    · rw [if_pos hu] at hj; cases hj; exact he hu
    · rw [if_neg hu, lookup_filter_ne _ _ _ (fun e => hu e.symm)] at hj
      exact h.store j hj
  | del u' =>
    refine ⟨?_, h.recs⟩
    intro j hj
    simp only [step, del] at hj
    exact h.store j (lookup_filter_some _ _ _ _ hj).2
  | getUser u' b now =>
    simp only [step]
    unfold getUser
    split
    · exact h
    · split
      · exact h
      · refine ⟨h.store, ?_⟩
        intro rid r hr hu hb
        rcases getElem?_append_cases _ _ _ _ hr with ⟨_, rfl⟩ | ⟨_, hr'⟩
        · simp
        · exact h.recs rid r hr' hu hb
  | getSession rid sid key now =>
    simp only [step]
    by_cases hcr : ∃ k, (getSession cfg s rid sid key now).2 = .created k
    · obtain ⟨k, hres⟩ := hcr
      obtain ⟨r, hr, _, _, hrecs, _, hauth⟩ := created_spec hres
      refine ⟨by
        have : (getSession cfg s rid sid key now).1.store = s.store := by
          unfold getSession; repeat' split
          all_goals rfl
        rw [this]; exact h.store, ?_⟩
      intro j x hx hu hb
      rw [hrecs] at hx
      rcases getElem?_set_cases _ _ _ _ _ hx with ⟨_, rfl⟩ | ⟨_, hx'⟩
      · simp only at hu hb ⊢
        obtain ⟨i, hi, _, _, _, hlt⟩ := authoriseNew_none (hauth hb)
        rw [hu] at hi
        have := h.store i hi
        simp only [List.length_cons]
        omega
      · exact h.recs j x hx' hu hb
    · rw [other_spec (fun k hk => hcr ⟨k, hk⟩)]; exact h
  | closeLocked rid sid => exact capInv_closeLocked u C s rid sid h
  | refusedCleanup rid sid =>
    simp only [step]
    by_cases hcl : cfg.cleanupNamesSession = true
    · rw [refusedCleanup_names hcl]; exact capInv_closeLocked u C s rid sid h
    · have hcl' : cfg.cleanupNamesSession = false := by simpa using hcl
      cases hr : s.recs[rid]? with
      | none => rw [refusedCleanup_noRec hcl' hr]; exact h
      | some r =>
        rw [refusedCleanup_rec hcl' hr]
        refine ⟨h.store, ?_⟩
        intro j x hx hu hb
        rcases getElem?_set_cases _ _ _ _ _ hx with ⟨hj, rfl⟩ | ⟨_, hx'⟩
        · exact h.recs rid r hr hu hb
        · exact h.recs j x hx' hu hb
  | retire rid =>
    simp only [step]
    unfold retire
    split
    · exact h
    · rename_i r hr
      refine ⟨h.store, ?_⟩
      intro j x hx hu hb
      rcases getElem?_set_cases _ _ _ _ _ hx with ⟨hj, rfl⟩ | ⟨_, hx'⟩
      · exact h.recs rid r hr hu hb
      · exact h.recs j x hx' hu hb
  | closeAll rid =>
    simp only [step]
    unfold closeAll
    split
    · split
      · exact h
      · rename_i r hr
        refine ⟨h.store, ?_⟩
        intro j x hx hu hb
        rcases getElem?_set_cases _ _ _ _ _ hx with ⟨hj, rfl⟩ | ⟨_, hx'⟩
        · simp
        · exact h.recs j x hx' hu hb
    · exact h
  | deleteRec rid =>
    simp only [step]
    unfold deleteRec
    split
    · split
      · exact h
      · split <;> exact ⟨h.store, h.recs⟩
    · exact h

/-- **C15 cap**: for every schedule of admissions, closures, terminations and admin edits in which the cap stored
for `u` never exceeds `C`, no record of the limited user `u` ever holds more than `C` sessions — in every
reachable state. (`C = 0`: none at all.) -/
theorem c15_cap (cfg : Cfg) (u C : Nat) (evs : List Ev) (hev : ∀ e ∈ evs, capOk u C e) :
    ∀ (rid : Nat) (r : Rec), (run cfg init evs).recs[rid]? = some r → r.uid = u → r.bypass = false →
      r.sessions.length ≤ C := by
  have : ∀ (evs : List Ev) (s : St), CapInv u C s → (∀ e ∈ evs, capOk u C e) → CapInv u C (run cfg s evs) := by
    intro evs
    induction evs with
    | nil => intro s h _; exact h
    | cons e rest ih =>
      intro s h hev
      exact ih _ (capInv_step cfg u C s e h (hev e (by simp))) (fun e' he' => hev e' (by simp [he']))
  exact (this evs init ⟨by intro i hi; simp [init, lookup] at hi, by intro rid r hr; simp [init] at hr⟩ hev).recs

theorem c15_cap_zero (cfg : Cfg) (u : Nat) (evs : List Ev) (hev : ∀ e ∈ evs, capOk u 0 e)
    (rid : Nat) (r : Rec) (hr : (run cfg init evs).recs[rid]? = some r) (hu : r.uid = u) (hb : r.bypass = false) :
    r.sessions = [] := by
  have := c15_cap cfg u 0 evs hev rid r hr hu hb
  exact List.eq_nil_of_length_eq_zero (by omega)

def info2 : Info := ⟨2, 1000, 1000, 50, 50, 100⟩

/-- non-vacuity: cap 2, four simultaneous requests for three ids: two created, one joined, one refused -/
example :
    let s0 := run pinnedCfg init [.put 7 info2, .getUser 7 false 10]
    let r1 := getSession pinnedCfg s0 0 1 100 10
    let r2 := getSession pinnedCfg r1.1 0 2 200 10
    let r3 := getSession pinnedCfg r2.1 0 1 300 10
    let r4 := getSession pinnedCfg r3.1 0 3 400 10
    (r1.2, r2.2, r3.2, r4.2) = (.created 100, .created 200, .joined 100, .refused "ErrSessionsCapReached") := by
  decide

/-! ## 4. Same (uid, session id) ⇒ same session and key -/

/-- events that remove session `sid` of record `rid` (its closure, or the record's termination) -/
def removes (rid sid : Nat) : Ev → Prop
  | .closeLocked r s => r = rid ∧ s = sid
  | .closeAll r => r = rid
  | .retire r => r = rid
  | _ => False

theorem lookup_sessions_cons_ne (l : List (Nat × Nat)) (a k sid : Nat) (h : a ≠ sid) :
    lookup ((a, k) :: l) sid = lookup l sid := by rw [lookup_cons, if_neg h]

/-- while session `sid` of record `rid` is not removed, it stays the same entry with the same key -/
theorem entry_stable (cfg : Cfg) (hcl : cfg.cleanupNamesSession = false) (rid sid K : Nat) (s : St) (e : Ev)
    (hne : ¬ removes rid sid e)
    (h : ∃ r, s.recs[rid]? = some r ∧ lookup r.sessions sid = some K ∧ (cfg.checksRetired = true → r.retired = false)) :
    ∃ r, (step cfg s e).recs[rid]? = some r ∧ lookup r.sessions sid = some K ∧ (cfg.checksRetired = true → r.retired = false) := by
  obtain ⟨r, hr, hl, hret⟩ := h
  cases e with
  | put u i => exact ⟨r, hr, hl, hret⟩
  | del u => exact ⟨r, hr, hl, hret⟩
  | getUser u b now =>
    simp only [step]; unfold getUser
    split
    · exact ⟨r, hr, hl, hret⟩
    · split
      · exact ⟨r, hr, hl, hret⟩
      · exact ⟨r, by simp only; rw [List.getElem?_append_left (getElem?_lt _ _ _ hr)]; exact hr, hl, hret⟩
  | getSession rid' sid' key now =>
    simp only [step]
    by_cases hcr : ∃ k, (getSession cfg s rid' sid' key now).2 = .created k
    · obtain ⟨k, hres⟩ := hcr
      obtain ⟨r', hr', hfree, _, hrecs, _, _⟩ := created_spec hres
      rw [hrecs]
      by_cases hj : rid' = rid
      · subst hj
        rw [hr] at hr'; cases hr'
        refine ⟨_, getElem?_set_eq' _ _ _ _ hr, ?_, hret⟩
        have : sid' ≠ sid := by intro e; subst e; rw [hl] at hfree; cases hfree
        simp only; rw [lookup_sessions_cons_ne _ _ _ _ this]; exact hl
      · exact ⟨r, by rw [getElem?_set_ne' _ _ _ _ hj]; exact hr, hl, hret⟩
    · rw [other_spec (fun k hk => hcr ⟨k, hk⟩)]; exact ⟨r, hr, hl, hret⟩
  | closeLocked rid' sid' =>
    simp only [step]; unfold closeLocked
    split
    · exact ⟨r, hr, hl, hret⟩
    · rename_i r' hr'
      by_cases hj : rid' = rid
      · subst hj
        rw [hr] at hr'; cases hr'
        have hs : sid ≠ sid' := by intro e; subst e; exact hne ⟨rfl, rfl⟩
        have hl' : lookup (r.sessions.filter (fun e => e.1 != sid')) sid = some K := by
          rw [lookup_filter_ne _ _ _ hs]; exact hl
        have hne' : (r.sessions.filter (fun e => e.1 != sid')).isEmpty = false := by
          cases hf : r.sessions.filter (fun e => e.1 != sid') with
          | nil => rw [hf] at hl'; simp [lookup] at hl'
          | cons a b => rfl
        refine ⟨_, getElem?_set_eq' _ _ _ _ hr, hl', ?_⟩
        intro hc
        simp only [hne', Bool.and_false, Bool.or_false]
        exact hret hc
      · exact ⟨r, by simp only; rw [getElem?_set_ne' _ _ _ _ hj]; exact hr, hl, hret⟩
  | retire rid' =>
    have hj : rid' ≠ rid := fun e => hne e
    simp only [step]; unfold retire
    split
    · exact ⟨r, hr, hl, hret⟩
    · exact ⟨r, by simp only; rw [getElem?_set_ne' _ _ _ _ hj]; exact hr, hl, hret⟩
  | closeAll rid' =>
    have hj : rid' ≠ rid := fun e => hne e
    simp only [step]; unfold closeAll
    split
    · split
      · exact ⟨r, hr, hl, hret⟩
      · exact ⟨r, by simp only; rw [getElem?_set_ne' _ _ _ _ hj]; exact hr, hl, hret⟩
    · exact ⟨r, hr, hl, hret⟩
  | deleteRec rid' =>
    simp only [step]; unfold deleteRec
    split
    · split
      · exact ⟨r, hr, hl, hret⟩
      · split <;> exact ⟨r, hr, hl, hret⟩
    · exact ⟨r, hr, hl, hret⟩
  | refusedCleanup rid' sid' =>
    -- the repaired clean-up names no session: a record that has one is left as it is
    simp only [step]
    by_cases hj : rid' = rid
    · subst hj
      have hne' : r.sessions ≠ [] := by
        intro he; rw [he] at hl; simp [lookup] at hl
      rw [refusedCleanup_nonempty hcl hr hne']
      exact ⟨r, hr, hl, hret⟩
    · cases hr' : s.recs[rid']? with
      | none => rw [refusedCleanup_noRec hcl hr']; exact ⟨r, hr, hl, hret⟩
      | some r' =>
        rw [refusedCleanup_rec hcl hr']
        exact ⟨r, by simp only; rw [getElem?_set_ne' _ _ _ _ hj]; exact hr, hl, hret⟩

theorem entry_stable_run (cfg : Cfg) (hcl : cfg.cleanupNamesSession = false) (rid sid K : Nat) (mid : List Ev) :
    ∀ (s : St), (∀ e ∈ mid, ¬ removes rid sid e) →
    (∃ r, s.recs[rid]? = some r ∧ lookup r.sessions sid = some K ∧ (cfg.checksRetired = true → r.retired = false)) →
    ∃ r, (run cfg s mid).recs[rid]? = some r ∧ lookup r.sessions sid = some K ∧ (cfg.checksRetired = true → r.retired = false) := by
  induction mid with
  | nil => intro s _ h; exact h
  | cons e rest ih =>
    intro s hm h
    exact ih _ (fun e' he' => hm e' (by simp [he'])) (entry_stable cfg hcl rid sid K s e (hm e (by simp)) h)

/-- the answer a connection gets when it is attached: the session's key -/
def attachedKey : Res → Option Nat
  | .joined k => some k
  | .created k => some k
  | _ => none

/-- the entry a successful `getSession` leaves behind -/
theorem attached_entry (cfg : Cfg) (s : St) (rid sid k1 : Nat) (now1 : Int) (K : Nat)
    (h1 : attachedKey (getSession cfg s rid sid k1 now1).2 = some K) :
    ∃ r, (getSession cfg s rid sid k1 now1).1.recs[rid]? = some r ∧ lookup r.sessions sid = some K ∧
      (cfg.checksRetired = true → r.retired = false) := by
  cases hres : (getSession cfg s rid sid k1 now1).2 with
  | created k =>
    rw [hres] at h1; simp only [attachedKey, Option.some.injEq] at h1; subst h1
    obtain ⟨r, hr, _, hk, hrecs, hnr, _⟩ := created_spec hres
    subst hk
    rw [hrecs]
    exact ⟨_, getElem?_set_eq' _ _ _ _ hr, by simp only; rw [lookup_cons, if_pos rfl], hnr⟩
  | joined k =>
    rw [hres] at h1; simp only [attachedKey, Option.some.injEq] at h1; subst h1
    obtain ⟨r, hr, hl, hs, hnr⟩ := joined_spec hres
    rw [hs]
    exact ⟨r, hr, hl, hnr⟩
  | refused w => rw [hres] at h1; cases h1
  | retired => rw [hres] at h1; cases h1
  | noRec => rw [hres] at h1; cases h1

/-- a connection presenting `(rid, sid)` while that entry is there joins it -/
theorem joins_entry (cfg : Cfg) (s' : St) (rid sid k2 : Nat) (now2 : Int) (K : Nat)
    (h : ∃ r, s'.recs[rid]? = some r ∧ lookup r.sessions sid = some K ∧ (cfg.checksRetired = true → r.retired = false)) :
    (getSession cfg s' rid sid k2 now2).2 = .joined K := by
  obtain ⟨r, hr, hl, hret⟩ := h
  unfold getSession
  simp only [hr, hl]
  by_cases hc : cfg.checksRetired = true
  · simp [hc, hret hc]
  · have : cfg.checksRetired = false := by simpa using hc
    simp [this]

/-- **C15 same session, core**: a connection is attached to session `(rid, sid)` with key `K` (created or joined);
then ANY interleaving `mid` of other admissions (refused ones and their clean-up included), closures of other
sessions, terminations of other records and admin edits happens; then another connection presents the same
`(rid, sid)` (offering whatever fresh key, at whatever time): it JOINS, and is given the same key `K`.
(Any starting state; `c15_same_session` below also lets terminations of THIS record appear in `mid` when a refused
connection's clean-up started them.) -/
theorem c15_same_session_core (cfg : Cfg) (hcl : cfg.cleanupNamesSession = false)
    (s : St) (rid sid k1 k2 : Nat) (now1 now2 : Int) (mid : List Ev) (K : Nat)
    (h1 : attachedKey (getSession cfg s rid sid k1 now1).2 = some K)
    (hmid : ∀ e ∈ mid, ¬ removes rid sid e) :
    (getSession cfg (run cfg (getSession cfg s rid sid k1 now1).1 mid) rid sid k2 now2).2 = .joined K := by
  exact joins_entry cfg _ rid sid k2 now2 K
    (entry_stable_run cfg hcl rid sid K mid _ hmid (attached_entry cfg s rid sid k1 now1 K h1))

/-! ## 4b. Full statement: refused connections clean up (and may terminate an empty record) at any moment -/

theorem retired_set (recs : List Rec) (rid j : Nat) (r r' x : Rec) (hr : recs[rid]? = some r) (hx : recs[j]? = some x)
    (hret : x.retired = true) (hmono : r.retired = true → r'.retired = true) :
    ∃ x', (recs.set rid r')[j]? = some x' ∧ x'.retired = true := by
  by_cases hj : j = rid
  · subst hj
    rw [hr] at hx; cases hx
    exact ⟨r', getElem?_set_eq' _ _ _ _ hr, hmono hret⟩
  · exact ⟨x, by rw [getElem?_set_ne' _ _ _ _ (fun e => hj e.symm)]; exact hx, hret⟩

/-- no step ever clears a record's `retired` flag -/
theorem retired_mono (cfg : Cfg) (s : St) (e : Ev) (j : Nat) (x : Rec) (hx : s.recs[j]? = some x)
    (hret : x.retired = true) : ∃ x', (step cfg s e).recs[j]? = some x' ∧ x'.retired = true := by
  have hcl : ∀ rid sid, ∃ x', (closeLocked s rid sid).1.recs[j]? = some x' ∧ x'.retired = true := by
    intro rid sid
    unfold closeLocked
    split
    · exact ⟨x, hx, hret⟩
    · rename_i r hr; exact retired_set _ _ _ r _ x hr hx hret (fun h => by simp [h])
  cases e with
  | put u i => exact ⟨x, hx, hret⟩
  | del u => exact ⟨x, hx, hret⟩
  | getUser u b now =>
    simp only [step]; unfold getUser
    split
    · exact ⟨x, hx, hret⟩
    · split
      · exact ⟨x, hx, hret⟩
      · exact ⟨x, by simp only; rw [List.getElem?_append_left (getElem?_lt _ _ _ hx)]; exact hx, hret⟩
  | getSession rid sid key now =>
    simp only [step]
    by_cases hcr : ∃ k, (getSession cfg s rid sid key now).2 = .created k
    · obtain ⟨k, hres⟩ := hcr
      obtain ⟨r, hr, _, _, hrecs, _, _⟩ := created_spec hres
      rw [hrecs]
      exact retired_set _ _ _ r _ x hr hx hret (fun h => h)
    · rw [other_spec (fun k hk => hcr ⟨k, hk⟩)]; exact ⟨x, hx, hret⟩
  | closeLocked rid sid => exact hcl rid sid
  | retire rid =>
    simp only [step]; unfold retire
    split
    · exact ⟨x, hx, hret⟩
    · rename_i r hr
      exact retired_set _ _ _ r _ x hr hx hret (fun h => by simp [h])
  | closeAll rid =>
    simp only [step]; unfold closeAll
    split
    · split
      · exact ⟨x, hx, hret⟩
      · rename_i r hr; exact retired_set _ _ _ r _ x hr hx hret (fun h => h)
    · exact ⟨x, hx, hret⟩
  | deleteRec rid =>
    simp only [step]; unfold deleteRec
    split
    · split
      · exact ⟨x, hx, hret⟩
      · split <;> exact ⟨x, hx, hret⟩
    · exact ⟨x, hx, hret⟩
  | refusedCleanup rid sid =>
    simp only [step]
    by_cases hn : cfg.cleanupNamesSession = true
    · rw [refusedCleanup_names hn]; exact hcl rid sid
    · have hn' : cfg.cleanupNamesSession = false := by simpa using hn
      cases hr : s.recs[rid]? with
      | none => rw [refusedCleanup_noRec hn' hr]; exact ⟨x, hx, hret⟩
      | some r =>
        rw [refusedCleanup_rec hn' hr]
        exact retired_set _ _ _ r _ x hr hx hret (fun h => by simp [h])

/-- records whose termination a refused connection's clean-up has started (it found them empty): the thread goes on
with `TerminateActiveUser`, i.e. `retire`, `closeAll`, `deleteRec` of that record -/
def licStep (cfg : Cfg) (s : St) (lic : List Nat) : Ev → List Nat
  | .refusedCleanup r x => if (refusedCleanup cfg s r x).2 = some true then r :: lic else lic
  | _ => lic

def licensed (cfg : Cfg) : St → List Nat → List Ev → List Nat
  | _, lic, [] => lic
  | s, lic, e :: rest => licensed cfg (step cfg s e) (licStep cfg s lic e) rest

/-- what C15's quantifier lets happen while a connection is attached to `(rid, sid)`: everything — other admissions
(refused ones and their clean-up included, for this very pair too), closures of other sessions, admin edits, any step
on other records — except the closure of that very session and a termination of its record that was NOT started by a
refused connection's clean-up (last-session closure, TERMINATE verdict: "that race is C17's") -/
def allowed (rid sid : Nat) (lic : List Nat) : Ev → Prop
  | .closeLocked r x => ¬ (r = rid ∧ x = sid)
  | .retire r => r = rid → rid ∈ lic
  | .closeAll r => r = rid → rid ∈ lic
  | _ => True

instance allowedDec (rid sid : Nat) (lic : List Nat) : (e : Ev) → Decidable (allowed rid sid lic e)
  | .closeLocked r x => inferInstanceAs (Decidable (¬ (r = rid ∧ x = sid)))
  | .retire r => inferInstanceAs (Decidable (r = rid → rid ∈ lic))
  | .closeAll r => inferInstanceAs (Decidable (r = rid → rid ∈ lic))
  | .put _ _ => isTrue trivial
  | .del _ => isTrue trivial
  | .getUser _ _ _ => isTrue trivial
  | .getSession _ _ _ _ => isTrue trivial
  | .deleteRec _ => isTrue trivial
  | .refusedCleanup _ _ => isTrue trivial

def Quant (cfg : Cfg) (rid sid : Nat) : St → List Nat → List Ev → Prop
  | _, _, [] => True
  | s, lic, e :: rest => allowed rid sid lic e ∧ Quant cfg rid sid (step cfg s e) (licStep cfg s lic e) rest

instance quantDec (cfg : Cfg) (rid sid : Nat) : (s : St) → (lic : List Nat) → (mid : List Ev) → Decidable (Quant cfg rid sid s lic mid)
  | _, _, [] => isTrue trivial
  | s, lic, e :: rest =>
    have := quantDec cfg rid sid (step cfg s e) (licStep cfg s lic e) rest
    inferInstanceAs (Decidable (allowed rid sid lic e ∧ Quant cfg rid sid (step cfg s e) (licStep cfg s lic e) rest))

/-- **C15 same session, full statement** for a tree with facts `cfg`: after ANY history `pre` of the bookkeeping model,
a connection is attached to `(rid, sid)` with key `K`; then any `mid` the quantifier allows (`Quant`; the terminations
licensed by clean-ups of `pre` count); then a connection presenting `(rid, sid)` joins and gets `K`. -/
def c15_same_session_full (cfg : Cfg) : Prop :=
  ∀ (pre mid : List Ev) (rid sid k1 k2 : Nat) (now1 now2 : Int) (K : Nat),
    attachedKey (getSession cfg (run cfg init pre) rid sid k1 now1).2 = some K →
    Quant cfg rid sid (getSession cfg (run cfg init pre) rid sid k1 now1).1 (licensed cfg init [] pre) mid →
    (getSession cfg (run cfg (getSession cfg (run cfg init pre) rid sid k1 now1).1 mid) rid sid k2 now2).2 = .joined K

/-- every licensed record is retired (needs the clean-up to retire what it finds empty, in the same critical section) -/
def LicInv (s : St) (lic : List Nat) : Prop := ∀ j ∈ lic, ∃ x, s.recs[j]? = some x ∧ x.retired = true

theorem licInv_step (cfg : Cfg) (hcl : cfg.cleanupNamesSession = false) (hcr : cfg.cleanupRetires = true)
    (s : St) (lic : List Nat) (e : Ev) (h : LicInv s lic) : LicInv (step cfg s e) (licStep cfg s lic e) := by
  intro j hj
  have hold : j ∈ lic → ∃ x, (step cfg s e).recs[j]? = some x ∧ x.retired = true := by
    intro hj'
    obtain ⟨x, hx, hret⟩ := h j hj'
    exact retired_mono cfg s e j x hx hret
  cases e with
  | refusedCleanup r x =>
    simp only [licStep] at hj
    split at hj
    · rename_i ht
      rcases List.mem_cons.1 hj with rfl | hj'
      · obtain ⟨rec, hrec, _, hrecs⟩ := refusedCleanup_terminate_spec hcl ht
        simp only [step]
        rw [hrecs]
        exact ⟨_, getElem?_set_eq' _ _ _ _ hrec, by simp [hcr]⟩
      · exact hold hj'
    · exact hold hj
  | put u i => exact hold hj
  | del u => exact hold hj
  | getUser u b now => exact hold hj
  | getSession rid sid key now => exact hold hj
  | closeLocked rid sid => exact hold hj
  | retire rid => exact hold hj
  | closeAll rid => exact hold hj
  | deleteRec rid => exact hold hj

theorem licInv_run (cfg : Cfg) (hcl : cfg.cleanupNamesSession = false) (hcr : cfg.cleanupRetires = true) (evs : List Ev) :
    ∀ (s : St) (lic : List Nat), LicInv s lic → LicInv (run cfg s evs) (licensed cfg s lic evs) := by
  induction evs with
  | nil => intro s lic h; exact h
  | cons e rest ih => intro s lic h; exact ih _ _ (licInv_step cfg hcl hcr s lic e h)

/-- while `(rid, sid)` is attached (entry there, record not retired) nothing the quantifier allows removes it: a
licensed termination never concerns this record, because a licensed record is retired -/
theorem quant_run (cfg : Cfg) (hcl : cfg.cleanupNamesSession = false) (hcr : cfg.cleanupRetires = true)
    (hck : cfg.checksRetired = true) (rid sid K : Nat) (mid : List Ev) :
    ∀ (s : St) (lic : List Nat),
      (∃ r, s.recs[rid]? = some r ∧ lookup r.sessions sid = some K ∧ (cfg.checksRetired = true → r.retired = false)) →
      LicInv s lic → Quant cfg rid sid s lic mid →
      ∃ r, (run cfg s mid).recs[rid]? = some r ∧ lookup r.sessions sid = some K ∧ (cfg.checksRetired = true → r.retired = false) := by
  induction mid with
  | nil => intro s lic h _ _; exact h
  | cons e rest ih =>
    intro s lic h hlic hq
    obtain ⟨hal, hrest⟩ := hq
    have hnotlic : rid ∉ lic := by
      intro hin
      obtain ⟨x, hx, hxr⟩ := hlic rid hin
      obtain ⟨r, hr, _, hnr⟩ := h
      rw [hr] at hx; cases hx
      rw [hnr hck] at hxr; cases hxr
    have hne : ¬ removes rid sid e := by
      intro hrem
      cases e with
      | closeLocked r x => exact hal hrem
      | retire r => exact hnotlic (hal hrem)
      | closeAll r => exact hnotlic (hal hrem)
      | put u i => exact hrem
      | del u => exact hrem
      | getUser u b now => exact hrem
      | getSession a b c d => exact hrem
      | deleteRec r => exact hrem
      | refusedCleanup r x => exact hrem
    exact ih _ _ (entry_stable cfg hcl rid sid K s e hne h) (licInv_step cfg hcl hcr s lic e hlic) hrest

theorem c15_same_session_of (cfg : Cfg) (hcl : cfg.cleanupNamesSession = false) (hcr : cfg.cleanupRetires = true)
    (hck : cfg.checksRetired = true) : c15_same_session_full cfg := by
  intro pre mid rid sid k1 k2 now1 now2 K h1 hq
  apply joins_entry
  apply quant_run cfg hcl hcr hck rid sid K mid _ _ (attached_entry cfg _ rid sid k1 now1 K h1) ?_ hq
  -- the attaching `getSession` changes no `retired` flag
  have hpre := licInv_run cfg hcl hcr pre init [] (by intro j hj; cases hj)
  intro j hj
  obtain ⟨x, hx, hxr⟩ := hpre j hj
  exact retired_mono cfg _ (.getSession rid sid k1 now1) j x hx hxr

/-- **C15 same session** (full strength, from the facts of the CURRENT tree): all connections presenting the same
record and session id are attached to one session and get its key, in whatever order they arrive and whatever else
happens in between — other admissions, refused connections cleaning up (also for this very pair) and terminating
the records they found empty, closures of other sessions, admin edits. -/
theorem c15_same_session : c15_same_session_full genCfg :=
  c15_same_session_of genCfg gen_refused_cleanup.1 gen_refused_cleanup.2.2.1 gen_refused_cleanup.2.2.2.2

/-- the link from "same UID" to "same record" (C17's invariant, with either clean-up): in every reachable state a
record that holds a session IS the record a connection of that user is resolved to -/
theorem c15_connection_resolves_record (names retires : Bool) (evs : List Ev) (rid : Nat) (r : Rec)
    (hr : (run (orphanRepaired names retires) init evs).recs[rid]? = some r) (hne : r.sessions ≠ []) (bp : Bool) (now : Int) :
    (getUser (run (orphanRepaired names retires) init evs) r.uid bp now).2 = .ok rid false := by
  have := inv_single (inv_run (a := names) (b := retires) evs inv_init) rid r hr hne
  unfold getUser
  simp [this]

/-- the schedule of the finding: the user (cap 2) holds sessions 101 and 102; connection A presenting 555 is refused;
session 101 ends (102 remains); connection B presenting 555 creates the session with key 4; A's error path runs;
connection C presents 555 -/
def siblingPre : List Ev :=
  [.put 7 info2, .getUser 7 false 10, .getSession 0 101 1 10, .getSession 0 102 2 10,
   .getSession 0 555 3 10,       -- A: refused, ErrSessionsCapReached
   .closeLocked 0 101]           -- X1 ends, not the user's last session

/-- what each step answers on the tree before the C15 repair (`c17Cfg`) and after it (`repairedCfg`) -/
theorem c15_sibling_schedule :
    (getSession c17Cfg (run c17Cfg init (siblingPre.take 4)) 0 555 3 10).2 = .refused "ErrSessionsCapReached" ∧
    (closeLocked (run c17Cfg init (siblingPre.take 5)) 0 101).2 = some 1 ∧
    (getSession c17Cfg (run c17Cfg init siblingPre) 0 555 4 10).2 = .created 4 ∧
    (getSession c17Cfg (run c17Cfg (getSession c17Cfg (run c17Cfg init siblingPre) 0 555 4 10).1 [.refusedCleanup 0 555]) 0 555 5 10).2
      = .created 5 ∧
    (getSession repairedCfg (run repairedCfg (getSession repairedCfg (run repairedCfg init siblingPre) 0 555 4 10).1 [.refusedCleanup 0 555]) 0 555 5 10).2
      = .joined 4 := by decide

/-- WITNESS (explicit facts of the tree before the repair: the refused connection calls `CloseSession(own id)`):
the full statement fails — B and C present the same pair and get two sessions with two keys -/
theorem c15_refused_cleanup_witness : ¬ c15_same_session_full c17Cfg := by
  intro h
  have := h siblingPre [.refusedCleanup 0 555] 0 555 4 5 10 10 4 (by decide) (by decide)
  revert this
  decide

/-- the same schedule on an EMPTY record: a refused first connection (cap 0) calls `CloseSession(own id)`, which finds
`remaining == 0`; the admin raises the cap; sibling B presents the pair.  On the tree before the C15 repair this was a
second witness (the termination destroyed B's fresh session).  Since `CloseSession` retires the record in the section in
which it finds it empty (`Gen.Panel.closeSessionRetiresWhenEmpty`, /repo's "stale last-session decision" fix), B is told
the record is retired and looks the user up again — even with the old clean-up: -/
example :
    (getSession c17Cfg (run c17Cfg init
      [.put 7 { info2 with cap := 0 }, .getUser 7 false 10, .getSession 0 5 1 10, .refusedCleanup 0 5, .put 7 info2]) 0 5 2 10).2
      = .retired := by decide

/-- why the repaired helper retires the record in the SAME critical section in which it finds it empty: without that
(`cleanupRetires = false`) a refused first connection (cap 0) decides to terminate the empty record, the admin raises
the cap, a sibling creates its session in the still unretired record, the termination then closes it -/
theorem c15_cleanup_must_retire_witness : ¬ c15_same_session_full (orphanRepaired false false) := by
  intro h
  have := h [.put 7 { info2 with cap := 0 }, .getUser 7 false 10, .getSession 0 5 1 10, .refusedCleanup 0 5, .put 7 info2]
    [.retire 0, .closeAll 0, .deleteRec 0] 0 5 2 3 10 10 2 (by decide) (by decide)
  revert this
  decide

/-- non-vacuity of `c15_same_session_full repairedCfg`: the finding's schedule, followed by a second refused connection
on a cap-0 user whose clean-up terminates the empty record (licensed `retire`/`closeAll`/`deleteRec` in `mid`) -/
example :
    let pre := siblingPre ++ [.put 8 { info2 with cap := 0 }, .getUser 8 false 10, .getSession 1 9 6 10]
    let mid : List Ev := [.refusedCleanup 0 555, .refusedCleanup 1 9, .retire 1, .closeAll 1, .deleteRec 1, .getSession 0 102 7 10]
    attachedKey (getSession repairedCfg (run repairedCfg init pre) 0 555 4 10).2 = some 4 ∧
    Quant repairedCfg 0 555 (getSession repairedCfg (run repairedCfg init pre) 0 555 4 10).1 (licensed repairedCfg init [] pre) mid ∧
    licensed repairedCfg (getSession repairedCfg (run repairedCfg init pre) 0 555 4 10).1 [] mid = [1] ∧
    (run repairedCfg (getSession repairedCfg (run repairedCfg init pre) 0 555 4 10).1 mid).active = [(7, 0)] := by
  decide
/-- two different users never resolve to the same record: an `activeUsers` entry for `u` points to a record of `u` -/
theorem bound_uid (cfg : Cfg) (evs : List Ev) :
    ∀ (u rid : Nat), lookup (run cfg init evs).active u = some rid →
      ∃ r, (run cfg init evs).recs[rid]? = some r ∧ r.uid = u := by
  have key : ∀ (evs : List Ev) (s : St),
      (∀ (u rid : Nat), lookup s.active u = some rid → ∃ r, s.recs[rid]? = some r ∧ r.uid = u) →
      (∀ (u rid : Nat), lookup (run cfg s evs).active u = some rid → ∃ r, (run cfg s evs).recs[rid]? = some r ∧ r.uid = u) := by
    intro evs
    induction evs with
    | nil => intro s h; exact h
    | cons e rest ih =>
      intro s h
      apply ih
      -- one step; table updates keep uid
      have hset : ∀ (rid : Nat) (r r' : Rec), s.recs[rid]? = some r → r'.uid = r.uid →
          ∀ (u j : Nat), lookup s.active u = some j → ∃ x, (s.recs.set rid r')[j]? = some x ∧ x.uid = u := by
        intro rid r r' hr hu u j hl
        obtain ⟨x, hx, hxu⟩ := h u j hl
        by_cases hj : j = rid
        · subst hj; rw [hr] at hx; cases hx
          exact ⟨r', getElem?_set_eq' _ _ _ _ hr, by rw [hu]; exact hxu⟩
        · exact ⟨x, by rw [getElem?_set_ne' _ _ _ _ (fun e => hj e.symm)]; exact hx, hxu⟩
      cases e with
      | put u i => exact h
      | del u => exact h
      | getUser u' b now =>
        simp only [step]; unfold getUser
        split
        · exact h
        · split
          · exact h
          · intro u j hl
            simp only at hl
            rw [lookup_cons] at hl
            by_cases hu : u' = u
            · rw [if_pos hu] at hl; cases hl
              exact ⟨⟨u', b, false, []⟩, by simp, hu⟩
            · rw [if_neg hu] at hl
              obtain ⟨x, hx, hxu⟩ := h u j hl
              exact ⟨x, by simp only; rw [List.getElem?_append_left (getElem?_lt _ _ _ hx)]; exact hx, hxu⟩
      | getSession rid sid key now =>
        simp only [step]
        by_cases hcr : ∃ k, (getSession cfg s rid sid key now).2 = .created k
        · obtain ⟨k, hres⟩ := hcr
          obtain ⟨r, hr, _, _, hrecs, _, _⟩ := created_spec hres
          have hact : (getSession cfg s rid sid key now).1.active = s.active := by
            unfold getSession; repeat' split
            all_goals rfl
          rw [hact, hrecs]
          exact hset rid r _ hr rfl
        · rw [other_spec (fun k hk => hcr ⟨k, hk⟩)]; exact h
      | closeLocked rid sid =>
        simp only [step]; unfold closeLocked
        split
        · exact h
        · rename_i r hr; exact hset rid r _ hr rfl
      | retire rid =>
        simp only [step]; unfold retire
        split
        · exact h
        · rename_i r hr; exact hset rid r _ hr rfl
      | closeAll rid =>
        simp only [step]; unfold closeAll
        split
        · split
          · exact h
          · rename_i r hr; exact hset rid r _ hr rfl
        · exact h
      | deleteRec rid =>
        simp only [step]; unfold deleteRec
        split
        · split
          · exact h
          · split
            · exact h
            · intro u j hl
              simp only at hl
              exact h u j (lookup_filter_some _ _ _ _ hl).2
        · exact h
      | refusedCleanup rid sid =>
        simp only [step]
        by_cases hcl : cfg.cleanupNamesSession = true
        · rw [refusedCleanup_names hcl]; unfold closeLocked
          split
          · exact h
          · rename_i r hr; exact hset rid r _ hr rfl
        · have hcl' : cfg.cleanupNamesSession = false := by simpa using hcl
          cases hr : s.recs[rid]? with
          | none => rw [refusedCleanup_noRec hcl' hr]; exact h
          | some r => rw [refusedCleanup_rec hcl' hr]; exact hset rid r _ hr rfl
  exact key evs init (by intro u rid hl; simp [init, lookup] at hl)

/-- **C15 distinct**: different uids never share a record (hence never a session), and within a record a `joined`
answer for `sid` reads the entry of `sid` only (`joined_spec`): different session ids never share a session. -/
theorem c15_distinct_users (cfg : Cfg) (evs : List Ev) (u1 u2 rid : Nat)
    (h1 : lookup (run cfg init evs).active u1 = some rid) (h2 : lookup (run cfg init evs).active u2 = some rid) :
    u1 = u2 := by
  obtain ⟨r1, hr1, e1⟩ := bound_uid cfg evs u1 rid h1
  obtain ⟨r2, hr2, e2⟩ := bound_uid cfg evs u2 rid h2
  rw [hr1] at hr2; cases hr2
  rw [← e1, ← e2]

/-! ## 5. Exhausted or expired users cannot start a session (nor become active) -/

theorem c15_exhausted (cfg : Cfg) (s : St) (rid sid key : Nat) (now : Int) (r : Rec) (i : Info)
    (hr : s.recs[rid]? = some r) (hb : r.bypass = false) (hnew : lookup r.sessions sid = none)
    (hi : lookup s.store r.uid = some i)
    (hx : i.upCredit ≤ 0 ∨ i.downCredit ≤ 0 ∨ i.expiry < now) :
    (∃ w, (getSession cfg s rid sid key now).2 = .refused w ∨ (getSession cfg s rid sid key now).2 = .retired) ∧
    (getSession cfg s rid sid key now).1 = s := by
  have ha : ∃ w, authoriseNew s.store r.uid now r.sessions.length = some w := by
    cases hh : authoriseNew s.store r.uid now r.sessions.length with
    | some w => exact ⟨w, rfl⟩
    | none =>
      obtain ⟨i', hi', a, b, c, _⟩ := authoriseNew_none hh
      rw [hi] at hi'; cases hi'
      omega
  obtain ⟨w, hw⟩ := ha
  unfold getSession
  simp only [hr, hnew, hb, hw]
  split
  · exact ⟨⟨w, Or.inr rfl⟩, rfl⟩
  · exact ⟨⟨w, Or.inl rfl⟩, rfl⟩

/-- a user who is not in the database, or exhausted, or expired, does not become active -/
theorem c15_exhausted_inactive (s : St) (u : Nat) (now : Int) (hn : lookup s.active u = none)
    (hx : lookup s.store u = none ∨ ∃ i, lookup s.store u = some i ∧ (i.upCredit ≤ 0 ∨ i.downCredit ≤ 0 ∨ i.expiry < now)) :
    (∃ w, (getUser s u false now).2 = .err w) ∧ (getUser s u false now).1 = s := by
  have ha : ∃ w, authenticate s.store u now = some w := by
    unfold authenticate
    rcases hx with h | ⟨i, hi, h⟩
    · rw [h]; exact ⟨_, rfl⟩
    · rw [hi]
      simp only
      cases hh : firstFail (Gen.Panel.authenticateChecks i.upCredit i.downCredit i.expiry now) with
      | some w => exact ⟨w, rfl⟩
      | none => have := (gen_authenticate _ _ _ _).1 hh; omega
  obtain ⟨w, hw⟩ := ha
  unfold getUser
  simp only [hn, Bool.false_eq_true, if_false, hw]
  exact ⟨⟨w, by simp⟩, by simp⟩

example : (getSession pinnedCfg (run pinnedCfg init [.put 7 info2, .getUser 7 false 10, .put 7 { info2 with downCredit := 0 }]) 0 1 5 10).2
    = .refused "ErrNoDownCredit" := by decide

/-! ## 6. The `>`-for-`>=` mutant admits cap+1 sessions (explicit comparison, not `Gen`) -/
def looseChecks (upCredit downCredit expiryTime now numExisting sessionsCap : Int) : List (String × Bool) :=
  [("ErrNoUpCredit", decide (upCredit ≤ 0)), ("ErrNoDownCredit", decide (downCredit ≤ 0)),
   ("ErrUserExpired", decide (expiryTime < now)), ("ErrSessionsCapReached", decide (numExisting > sessionsCap))]
theorem loose_admits_cap_plus_one : firstFail (looseChecks 5 5 100 0 1 1) = none := by decide

end C15

#print axioms C15.c15_cap
#print axioms C15.c15_same_session
#print axioms C15.c15_same_session_core
#print axioms C15.c15_refused_cleanup_witness
#print axioms C15.c15_exhausted
