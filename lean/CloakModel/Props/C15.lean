import CloakModel.Lemmas.PanelSpec

/-! # C15 — Connections join the right session; the per-user session cap is never exceeded

Model: `Model/Panel.lean`. `getSession` is ONE atomic step because the extractor saw lookup, authorisation and
insert inside one `sessionsM` critical section (`gen_structure`); the authorisation is the list of translated
comparisons `Gen.Panel.authoriseChecks` (`gen_authorise` says what they mean). The premise "one active record per
user" is C17's invariant (`C17.c17_single_record`); C15's theorems are per record, as the property's quantifier
excludes that race. -/

namespace C15
open Panel

/-! ## 1. What the extracted facts mean -/

/-- OBLIGATION: AuthoriseNewSession lets a new session through exactly when both credits are positive, the
expiry has not passed and the number of existing sessions is below the cap (whatever the order of the tests) -/
theorem gen_authorise (uc dc e now : Int) (n : Nat) (c : Int) :
    firstFail (Gen.Panel.authoriseChecks uc dc e now n c) = none ↔ (0 < uc ∧ 0 < dc ∧ now ≤ e ∧ (n : Int) < c) := by
  unfold Gen.Panel.authoriseChecks firstFail
  simp only [List.find?_cons, List.find?_nil]
  repeat' split
  all_goals simp_all
  all_goals omega

/-- OBLIGATION: AuthenticateUser (activation of a user) -/
theorem gen_authenticate (uc dc e now : Int) :
    firstFail (Gen.Panel.authenticateChecks uc dc e now) = none ↔ (0 < uc ∧ 0 < dc ∧ now ≤ e) := by
  unfold Gen.Panel.authenticateChecks firstFail
  simp only [List.find?_cons, List.find?_nil]
  repeat' split
  all_goals simp_all
  all_goals omega

/-- OBLIGATION: structure the model relies on — one critical section per operation; `len(u.sessions)` is what
is compared with the cap; the cap is read as `int(u32(·))` of what `i32ToB` wrote; credits/expiry read from
their own keys; the reply key is the joined session's key; the session gets the user's valve and is stored under
the id it was asked for; only bypass users skip the authorisation. -/
theorem gen_structure :
    Gen.Panel.getSessionUnderLock = true ∧ Gen.Panel.closeSessionUnderLock = true ∧
    Gen.Panel.closeAllSessionsUnderLock = true ∧ Gen.Panel.numSessionUnderLock = true ∧
    Gen.Panel.getUserUnderLock = true ∧ Gen.Panel.getBypassUserUnderLock = true ∧
    Gen.Panel.numExistingIsLen = true ∧ Gen.Panel.authoriseArgIsOwnUID = true ∧
    Gen.Panel.authoriseUnlessBypass = true ∧ Gen.Panel.capWrittenAsU32 = true ∧
    Gen.Panel.authoriseReads = [("sessionsCap", "int(u32", "SessionsCap"), ("upCredit", "int64(u64", "UpCredit"),
      ("downCredit", "int64(u64", "DownCredit"), ("expiryTime", "int64(u64", "ExpiryTime")] ∧
    Gen.Panel.authenticateReads = [("upRate", "int64(u64", "UpRate"), ("downRate", "int64(u64", "DownRate"),
      ("upCredit", "int64(u64", "UpCredit"), ("downCredit", "int64(u64", "DownCredit"), ("expiryTime", "int64(u64", "ExpiryTime")] ∧
    Gen.Panel.replyKeyIsSessionKey = true ∧ Gen.Panel.connAddedToJoinedSession = true ∧
    Gen.Panel.sessionKeyGetter = true ∧ Gen.Panel.valveFromUser = true ∧ Gen.Panel.sessionStoredUnderId = true := by
  decide

theorem capEff_nonneg (c : Int) : 0 ≤ capEff c := by unfold capEff; omega
theorem capEff_small (c : Int) (h0 : 0 ≤ c) (h1 : c < 4294967296) : capEff c = c := by unfold capEff; omega

/-! ## 2. Per-step facts -/

theorem authoriseNew_none {store : List (Nat × Info)} {uid : Nat} {now : Int} {n : Nat}
    (h : authoriseNew store uid now n = none) :
    ∃ i, lookup store uid = some i ∧ 0 < i.upCredit ∧ 0 < i.downCredit ∧ now ≤ i.expiry ∧ (n : Int) < capEff i.cap := by
  unfold authoriseNew at h
  split at h
  · cases h
  · rename_i i hi
    exact ⟨i, hi, (gen_authorise _ _ _ _ _ _).1 h⟩

-- `created_spec`, `joined_spec`, `other_spec` (what each answer of `getSession` says) are in `Lemmas/PanelSpec.lean`

/-! ## 3. The cap -/

/-- invariant for a user `u` whose stored cap never exceeds `C` -/
structure CapInv (u : Nat) (C : Nat) (s : St) : Prop where
  store : ∀ i, lookup s.store u = some i → capEff i.cap ≤ (C : Int)
  recs : ∀ (rid : Nat) (r : Rec), s.recs[rid]? = some r → r.uid = u → r.bypass = false → r.sessions.length ≤ C

def capOk (u : Nat) (C : Nat) : Ev → Prop
  | .put u' i => u' = u → capEff i.cap ≤ (C : Int)
  | _ => True

theorem capInv_step (cfg : Cfg) (u C : Nat) (s : St) (e : Ev) (h : CapInv u C s) (he : capOk u C e) :
    CapInv u C (step cfg s e) := by
  cases e with
  | put u' i =>
    refine ⟨?_, h.recs⟩
    intro j hj
    simp only [step, put] at hj
    rw [lookup_cons] at hj
    by_cases hu : u' = u
    · rw [if_pos hu] at hj; cases hj; exact he hu
    · rw [if_neg hu, lookup_filter_ne _ _ _ (fun e => hu e.symm)] at hj
      exact h.store j hj
  | del u' =>
    refine ⟨?_, h.recs⟩
    intro j hj
    simp only [step, del] at hj
    exact h.store j (lookup_filter_some _ _ _ _ hj).2
  | getUser u' b now =>
    simp only [step]
    unfold getUser
    split
    · exact h
    · split
      · exact h
      · refine ⟨h.store, ?_⟩
        intro rid r hr hu hb
        rcases getElem?_append_cases _ _ _ _ hr with ⟨_, rfl⟩ | ⟨_, hr'⟩
        · simp
        · exact h.recs rid r hr' hu hb
  | getSession rid sid key now =>
    simp only [step]
    by_cases hcr : ∃ k, (getSession cfg s rid sid key now).2 = .created k
    · obtain ⟨k, hres⟩ := hcr
      obtain ⟨r, hr, _, _, hrecs, _, hauth⟩ := created_spec hres
      refine ⟨by
        have : (getSession cfg s rid sid key now).1.store = s.store := by
          unfold getSession; repeat' split
          all_goals rfl
        rw [this]; exact h.store, ?_⟩
      intro j x hx hu hb
      rw [hrecs] at hx
      rcases getElem?_set_cases _ _ _ _ _ hx with ⟨_, rfl⟩ | ⟨_, hx'⟩
      · simp only at hu hb ⊢
        obtain ⟨i, hi, _, _, _, hlt⟩ := authoriseNew_none (hauth hb)
        rw [hu] at hi
        have := h.store i hi
        simp only [List.length_cons]
        omega
      · exact h.recs j x hx' hu hb
    · rw [other_spec (fun k hk => hcr ⟨k, hk⟩)]; exact h
  | closeLocked rid sid =>
    simp only [step]
    unfold closeLocked
    split
    · exact h
    · rename_i r hr
      refine ⟨h.store, ?_⟩
      intro j x hx hu hb
      rcases getElem?_set_cases _ _ _ _ _ hx with ⟨hj, rfl⟩ | ⟨_, hx'⟩
      · have := h.recs rid r hr hu hb
        have := List.length_filter_le (fun e : Nat × Nat => e.1 != sid) r.sessions
        simp only; omega
      · exact h.recs j x hx' hu hb
  | retire rid =>
    simp only [step]
    unfold retire
    split
    · exact h
    · rename_i r hr
      refine ⟨h.store, ?_⟩
      intro j x hx hu hb
      rcases getElem?_set_cases _ _ _ _ _ hx with ⟨hj, rfl⟩ | ⟨_, hx'⟩
      · exact h.recs rid r hr hu hb
      · exact h.recs j x hx' hu hb
  | closeAll rid =>
    simp only [step]
    unfold closeAll
    split
    · split
      · exact h
      · rename_i r hr
        refine ⟨h.store, ?_⟩
        intro j x hx hu hb
        rcases getElem?_set_cases _ _ _ _ _ hx with ⟨hj, rfl⟩ | ⟨_, hx'⟩
        · simp
        · exact h.recs j x hx' hu hb
    · exact h
  | deleteRec rid =>
    simp only [step]
    unfold deleteRec
    split
    · split
      · exact h
      · split <;> exact ⟨h.store, h.recs⟩
    · exact h

/-- **C15 cap**: for every schedule of admissions, closures, terminations and admin edits in which the cap stored
for `u` never exceeds `C`, no record of the limited user `u` ever holds more than `C` sessions — in every
reachable state. (`C = 0`: none at all.) -/
theorem c15_cap (cfg : Cfg) (u C : Nat) (evs : List Ev) (hev : ∀ e ∈ evs, capOk u C e) :
    ∀ (rid : Nat) (r : Rec), (run cfg init evs).recs[rid]? = some r → r.uid = u → r.bypass = false →
      r.sessions.length ≤ C := by
  have : ∀ (evs : List Ev) (s : St), CapInv u C s → (∀ e ∈ evs, capOk u C e) → CapInv u C (run cfg s evs) := by
    intro evs
    induction evs with
    | nil => intro s h _; exact h
    | cons e rest ih =>
      intro s h hev
      exact ih _ (capInv_step cfg u C s e h (hev e (by simp))) (fun e' he' => hev e' (by simp [he']))
  exact (this evs init ⟨by intro i hi; simp [init, lookup] at hi, by intro rid r hr; simp [init] at hr⟩ hev).recs

theorem c15_cap_zero (cfg : Cfg) (u : Nat) (evs : List Ev) (hev : ∀ e ∈ evs, capOk u 0 e)
    (rid : Nat) (r : Rec) (hr : (run cfg init evs).recs[rid]? = some r) (hu : r.uid = u) (hb : r.bypass = false) :
    r.sessions = [] := by
  have := c15_cap cfg u 0 evs hev rid r hr hu hb
  exact List.eq_nil_of_length_eq_zero (by omega)

def info2 : Info := ⟨2, 1000, 1000, 50, 50, 100⟩

/-- non-vacuity: cap 2, four simultaneous requests for three ids: two created, one joined, one refused -/
example :
    let s0 := run pinnedCfg init [.put 7 info2, .getUser 7 false 10]
    let r1 := getSession pinnedCfg s0 0 1 100 10
    let r2 := getSession pinnedCfg r1.1 0 2 200 10
    let r3 := getSession pinnedCfg r2.1 0 1 300 10
    let r4 := getSession pinnedCfg r3.1 0 3 400 10
    (r1.2, r2.2, r3.2, r4.2) = (.created 100, .created 200, .joined 100, .refused "ErrSessionsCapReached") := by
  decide

/-! ## 4. Same (uid, session id) ⇒ same session and key -/

/-- events that remove session `sid` of record `rid` (its closure, or the record's termination) -/
def removes (rid sid : Nat) : Ev → Prop
  | .closeLocked r s => r = rid ∧ s = sid
  | .closeAll r => r = rid
  | .retire r => r = rid
  | _ => False

theorem lookup_sessions_cons_ne (l : List (Nat × Nat)) (a k sid : Nat) (h : a ≠ sid) :
    lookup ((a, k) :: l) sid = lookup l sid := by rw [lookup_cons, if_neg h]

/-- while session `sid` of record `rid` is not removed, it stays the same entry with the same key -/
theorem entry_stable (cfg : Cfg) (rid sid K : Nat) (s : St) (e : Ev) (hne : ¬ removes rid sid e)
    (h : ∃ r, s.recs[rid]? = some r ∧ lookup r.sessions sid = some K ∧ (cfg.checksRetired = true → r.retired = false)) :
    ∃ r, (step cfg s e).recs[rid]? = some r ∧ lookup r.sessions sid = some K ∧ (cfg.checksRetired = true → r.retired = false) := by
  obtain ⟨r, hr, hl, hret⟩ := h
  cases e with
  | put u i => exact ⟨r, hr, hl, hret⟩
  | del u => exact ⟨r, hr, hl, hret⟩
  | getUser u b now =>
    simp only [step]; unfold getUser
    split
    · exact ⟨r, hr, hl, hret⟩
    · split
      · exact ⟨r, hr, hl, hret⟩
      · exact ⟨r, by simp only; rw [List.getElem?_append_left (getElem?_lt _ _ _ hr)]; exact hr, hl, hret⟩
  | getSession rid' sid' key now =>
    simp only [step]
    by_cases hcr : ∃ k, (getSession cfg s rid' sid' key now).2 = .created k
    · obtain ⟨k, hres⟩ := hcr
      obtain ⟨r', hr', hfree, _, hrecs, _, _⟩ := created_spec hres
      rw [hrecs]
      by_cases hj : rid' = rid
      · subst hj
        rw [hr] at hr'; cases hr'
        refine ⟨_, getElem?_set_eq' _ _ _ _ hr, ?_, hret⟩
        have : sid' ≠ sid := by intro e; subst e; rw [hl] at hfree; cases hfree
        simp only; rw [lookup_sessions_cons_ne _ _ _ _ this]; exact hl
      · exact ⟨r, by rw [getElem?_set_ne' _ _ _ _ hj]; exact hr, hl, hret⟩
    · rw [other_spec (fun k hk => hcr ⟨k, hk⟩)]; exact ⟨r, hr, hl, hret⟩
  | closeLocked rid' sid' =>
    simp only [step]; unfold closeLocked
    split
    · exact ⟨r, hr, hl, hret⟩
    · rename_i r' hr'
      by_cases hj : rid' = rid
      · subst hj
        rw [hr] at hr'; cases hr'
        have hs : sid ≠ sid' := by intro e; subst e; exact hne ⟨rfl, rfl⟩
        refine ⟨_, getElem?_set_eq' _ _ _ _ hr, ?_, hret⟩
        simp only; rw [lookup_filter_ne _ _ _ hs]; exact hl
      · exact ⟨r, by simp only; rw [getElem?_set_ne' _ _ _ _ hj]; exact hr, hl, hret⟩
  | retire rid' =>
    have hj : rid' ≠ rid := fun e => hne e
    simp only [step]; unfold retire
    split
    · exact ⟨r, hr, hl, hret⟩
    · exact ⟨r, by simp only; rw [getElem?_set_ne' _ _ _ _ hj]; exact hr, hl, hret⟩
  | closeAll rid' =>
    have hj : rid' ≠ rid := fun e => hne e
    simp only [step]; unfold closeAll
    split
    · split
      · exact ⟨r, hr, hl, hret⟩
      · exact ⟨r, by simp only; rw [getElem?_set_ne' _ _ _ _ hj]; exact hr, hl, hret⟩
    · exact ⟨r, hr, hl, hret⟩
  | deleteRec rid' =>
    simp only [step]; unfold deleteRec
    split
    · split
      · exact ⟨r, hr, hl, hret⟩
      · split <;> exact ⟨r, hr, hl, hret⟩
    · exact ⟨r, hr, hl, hret⟩

theorem entry_stable_run (cfg : Cfg) (rid sid K : Nat) (mid : List Ev) :
    ∀ (s : St), (∀ e ∈ mid, ¬ removes rid sid e) →
    (∃ r, s.recs[rid]? = some r ∧ lookup r.sessions sid = some K ∧ (cfg.checksRetired = true → r.retired = false)) →
    ∃ r, (run cfg s mid).recs[rid]? = some r ∧ lookup r.sessions sid = some K ∧ (cfg.checksRetired = true → r.retired = false) := by
  induction mid with
  | nil => intro s _ h; exact h
  | cons e rest ih =>
    intro s hm h
    exact ih _ (fun e' he' => hm e' (by simp [he'])) (entry_stable cfg rid sid K s e (hm e (by simp)) h)

/-- the answer a connection gets when it is attached: the session's key -/
def attachedKey : Res → Option Nat
  | .joined k => some k
  | .created k => some k
  | _ => none

/-- **C15 same session**: a connection is attached to session `(rid, sid)` with key `K` (created or joined);
then ANY interleaving `mid` of other admissions, closures of other sessions, terminations of other records and
admin edits happens; then another connection presents the same `(rid, sid)` (offering whatever fresh key, at
whatever time): it JOINS, and is given the same key `K`. -/
theorem c15_same_session (cfg : Cfg) (s : St) (rid sid k1 k2 : Nat) (now1 now2 : Int) (mid : List Ev) (K : Nat)
    (h1 : attachedKey (getSession cfg s rid sid k1 now1).2 = some K)
    (hmid : ∀ e ∈ mid, ¬ removes rid sid e) :
    (getSession cfg (run cfg (getSession cfg s rid sid k1 now1).1 mid) rid sid k2 now2).2 = .joined K := by
  have hentry : ∃ r, (getSession cfg s rid sid k1 now1).1.recs[rid]? = some r ∧ lookup r.sessions sid = some K ∧
      (cfg.checksRetired = true → r.retired = false) := by
    cases hres : (getSession cfg s rid sid k1 now1).2 with
    | created k =>
      rw [hres] at h1; simp only [attachedKey, Option.some.injEq] at h1; subst h1
      obtain ⟨r, hr, _, hk, hrecs, hnr, _⟩ := created_spec hres
      subst hk
      rw [hrecs]
      exact ⟨_, getElem?_set_eq' _ _ _ _ hr, by simp only; rw [lookup_cons, if_pos rfl], hnr⟩
    | joined k =>
      rw [hres] at h1; simp only [attachedKey, Option.some.injEq] at h1; subst h1
      obtain ⟨r, hr, hl, hs, hnr⟩ := joined_spec hres
      rw [hs]
      exact ⟨r, hr, hl, hnr⟩
    | refused w => rw [hres] at h1; cases h1
    | retired => rw [hres] at h1; cases h1
    | noRec => rw [hres] at h1; cases h1
  obtain ⟨r, hr, hl, hret⟩ := entry_stable_run cfg rid sid K mid _ hmid hentry
  generalize run cfg (getSession cfg s rid sid k1 now1).1 mid = s' at hr ⊢
  unfold getSession
  simp only [hr, hl]
  by_cases hc : cfg.checksRetired = true
  · simp [hc, hret hc]
  · have : cfg.checksRetired = false := by simpa using hc
    simp [this]

/-- two different users never resolve to the same record: an `activeUsers` entry for `u` points to a record of `u` -/
theorem bound_uid (cfg : Cfg) (evs : List Ev) :
    ∀ (u rid : Nat), lookup (run cfg init evs).active u = some rid →
      ∃ r, (run cfg init evs).recs[rid]? = some r ∧ r.uid = u := by
  have key : ∀ (evs : List Ev) (s : St),
      (∀ (u rid : Nat), lookup s.active u = some rid → ∃ r, s.recs[rid]? = some r ∧ r.uid = u) →
      (∀ (u rid : Nat), lookup (run cfg s evs).active u = some rid → ∃ r, (run cfg s evs).recs[rid]? = some r ∧ r.uid = u) := by
    intro evs
    induction evs with
    | nil => intro s h; exact h
    | cons e rest ih =>
      intro s h
      apply ih
      -- one step; table updates keep uid
      have hset : ∀ (rid : Nat) (r r' : Rec), s.recs[rid]? = some r → r'.uid = r.uid →
          ∀ (u j : Nat), lookup s.active u = some j → ∃ x, (s.recs.set rid r')[j]? = some x ∧ x.uid = u := by
        intro rid r r' hr hu u j hl
        obtain ⟨x, hx, hxu⟩ := h u j hl
        by_cases hj : j = rid
        · subst hj; rw [hr] at hx; cases hx
          exact ⟨r', getElem?_set_eq' _ _ _ _ hr, by rw [hu]; exact hxu⟩
        · exact ⟨x, by rw [getElem?_set_ne' _ _ _ _ (fun e => hj e.symm)]; exact hx, hxu⟩
      cases e with
      | put u i => exact h
      | del u => exact h
      | getUser u' b now =>
        simp only [step]; unfold getUser
        split
        · exact h
        · split
          · exact h
          · intro u j hl
            simp only at hl
            rw [lookup_cons] at hl
            by_cases hu : u' = u
            · rw [if_pos hu] at hl; cases hl
              exact ⟨⟨u', b, false, []⟩, by simp, hu⟩
            · rw [if_neg hu] at hl
              obtain ⟨x, hx, hxu⟩ := h u j hl
              exact ⟨x, by simp only; rw [List.getElem?_append_left (getElem?_lt _ _ _ hx)]; exact hx, hxu⟩
      | getSession rid sid key now =>
        simp only [step]
        by_cases hcr : ∃ k, (getSession cfg s rid sid key now).2 = .created k
        · obtain ⟨k, hres⟩ := hcr
          obtain ⟨r, hr, _, _, hrecs, _, _⟩ := created_spec hres
          have hact : (getSession cfg s rid sid key now).1.active = s.active := by
            unfold getSession; repeat' split
            all_goals rfl
          rw [hact, hrecs]
          exact hset rid r _ hr rfl
        · rw [other_spec (fun k hk => hcr ⟨k, hk⟩)]; exact h
      | closeLocked rid sid =>
        simp only [step]; unfold closeLocked
        split
        · exact h
        · rename_i r hr; exact hset rid r _ hr rfl
      | retire rid =>
        simp only [step]; unfold retire
        split
        · exact h
        · rename_i r hr; exact hset rid r _ hr rfl
      | closeAll rid =>
        simp only [step]; unfold closeAll
        split
        · split
          · exact h
          · rename_i r hr; exact hset rid r _ hr rfl
        · exact h
      | deleteRec rid =>
        simp only [step]; unfold deleteRec
        split
        · split
          · exact h
          · split
            · exact h
            · intro u j hl
              simp only at hl
              exact h u j (lookup_filter_some _ _ _ _ hl).2
        · exact h
  exact key evs init (by intro u rid hl; simp [init, lookup] at hl)

/-- **C15 distinct**: different uids never share a record (hence never a session), and within a record a `joined`
answer for `sid` reads the entry of `sid` only (`joined_spec`): different session ids never share a session. -/
theorem c15_distinct_users (cfg : Cfg) (evs : List Ev) (u1 u2 rid : Nat)
    (h1 : lookup (run cfg init evs).active u1 = some rid) (h2 : lookup (run cfg init evs).active u2 = some rid) :
    u1 = u2 := by
  obtain ⟨r1, hr1, e1⟩ := bound_uid cfg evs u1 rid h1
  obtain ⟨r2, hr2, e2⟩ := bound_uid cfg evs u2 rid h2
  rw [hr1] at hr2; cases hr2
  rw [← e1, ← e2]

/-! ## 5. Exhausted or expired users cannot start a session (nor become active) -/

theorem c15_exhausted (cfg : Cfg) (s : St) (rid sid key : Nat) (now : Int) (r : Rec) (i : Info)
    (hr : s.recs[rid]? = some r) (hb : r.bypass = false) (hnew : lookup r.sessions sid = none)
    (hi : lookup s.store r.uid = some i)
    (hx : i.upCredit ≤ 0 ∨ i.downCredit ≤ 0 ∨ i.expiry < now) :
    (∃ w, (getSession cfg s rid sid key now).2 = .refused w ∨ (getSession cfg s rid sid key now).2 = .retired) ∧
    (getSession cfg s rid sid key now).1 = s := by
  have ha : ∃ w, authoriseNew s.store r.uid now r.sessions.length = some w := by
    cases hh : authoriseNew s.store r.uid now r.sessions.length with
    | some w => exact ⟨w, rfl⟩
    | none =>
      obtain ⟨i', hi', a, b, c, _⟩ := authoriseNew_none hh
      rw [hi] at hi'; cases hi'
      omega
  obtain ⟨w, hw⟩ := ha
  unfold getSession
  simp only [hr, hnew, hb, hw]
  split
  · exact ⟨⟨w, Or.inr rfl⟩, rfl⟩
  · exact ⟨⟨w, Or.inl rfl⟩, rfl⟩

/-- a user who is not in the database, or exhausted, or expired, does not become active -/
theorem c15_exhausted_inactive (s : St) (u : Nat) (now : Int) (hn : lookup s.active u = none)
    (hx : lookup s.store u = none ∨ ∃ i, lookup s.store u = some i ∧ (i.upCredit ≤ 0 ∨ i.downCredit ≤ 0 ∨ i.expiry < now)) :
    (∃ w, (getUser s u false now).2 = .err w) ∧ (getUser s u false now).1 = s := by
  have ha : ∃ w, authenticate s.store u now = some w := by
    unfold authenticate
    rcases hx with h | ⟨i, hi, h⟩
    · rw [h]; exact ⟨_, rfl⟩
    · rw [hi]
      simp only
      cases hh : firstFail (Gen.Panel.authenticateChecks i.upCredit i.downCredit i.expiry now) with
      | some w => exact ⟨w, rfl⟩
      | none => have := (gen_authenticate _ _ _ _).1 hh; omega
  obtain ⟨w, hw⟩ := ha
  unfold getUser
  simp only [hn, Bool.false_eq_true, if_false, hw]
  exact ⟨⟨w, by simp⟩, by simp⟩

example : (getSession pinnedCfg (run pinnedCfg init [.put 7 info2, .getUser 7 false 10, .put 7 { info2 with downCredit := 0 }]) 0 1 5 10).2
    = .refused "ErrNoDownCredit" := by decide

/-! ## 6. The `>`-for-`>=` mutant admits cap+1 sessions (explicit comparison, not `Gen`) -/
def looseChecks (upCredit downCredit expiryTime now numExisting sessionsCap : Int) : List (String × Bool) :=
  [("ErrNoUpCredit", decide (upCredit ≤ 0)), ("ErrNoDownCredit", decide (downCredit ≤ 0)),
   ("ErrUserExpired", decide (expiryTime < now)), ("ErrSessionsCapReached", decide (numExisting > sessionsCap))]
theorem loose_admits_cap_plus_one : firstFail (looseChecks 5 5 100 0 1 1) = none := by decide

end C15

#print axioms C15.c15_cap
#print axioms C15.c15_same_session
#print axioms C15.c15_exhausted
