import CloakModel.Model.TLSWire
namespace C10
theorem stub : True := trivial
end C10
