import CloakModel.Model.TLSWire
import CloakModel.Lemmas.TLSWireCore
import CloakModel.Props.C04

/-! # C10 — Everything on the wire in direct mode is a well-formed TLS record stream

`Model/TLSWire.lean` has (1) a mirror of the Go code that writes to the wire, built from the literals and
slice bounds extracted from `TLSAux.go`, `common/tls.go`, `client/TLS.go` (`Gen.Wire`), and (2) an independent
validator written from RFC 8446.  Theorems: the server's reply always satisfies the validator and echoes the
session id (`c10_reply_valid`); every `TLSConn.Write` emits exactly one well-formed application-data record and
any sequence of them is a well-formed record stream, also after the server flight / the ClientHello record
(`c10_appdata`, `c10_server_stream`, `c10_client_stream`); every frame the multiplexer hands to `TLSConn.Write`
is accepted by it and gives a record of 23..16401 bytes (`c10_frames_fit`, from `C04.c04_size`).
`c10_hello` is partial: the ClientHello body is produced by uTLS (third party); what is proved is the record
around it, and the validator is applied to real uTLS output by the harness. -/

namespace C10
open TLSWire Gen.Wire

/-! ## 1. Structural facts -/

/-- record-layer helpers have the shape typ | version | uint16 length | body; `TLSConn.Write` appends the
big-endian length and the input to a pooled 3-byte prefix (23, 0x0303), performs ONE underlying write and
resets the buffer; the responder writes the reply once and only then wraps the connection; the client wraps
the ClientHello with `AddRecordLayer(ch, Handshake, VersionTLS11)`, writes it once and then wraps the connection;
the ServerHello pieces are concatenated in index order and get the ClientHello's own session id -/
theorem gen_structure :
    shConcatInOrder = true ∧ replyHelloArgs = true ∧ replyOrder = true ∧ addRecordLayerShape = true ∧
    responderWritesReplyThenWraps = true ∧ responderGetsClientSid = true ∧ ctxTagIsSidThenKeyShare = true ∧
    tlsMsgLenIsLen = true ∧ tlsWriteLenBytes = true ∧ tlsWriteAppendsInput = true ∧ tlsWriteConnWrites = 1 ∧
    tlsWriteWritesBuf = true ∧ tlsWriteResets = true ∧ tlsWriteOrder = true ∧ tlsPoolPrefix = true ∧
    commonAddRecordLayerShape = true ∧ Gen.Wire.clientHelloRecord = true ∧ clientHelloSid32AndSNI = true ∧
    recordLayerLength = 5 ∧ appDataMaxLengthClient = appDataMaxLengthServer := by decide

/-- the literals: handshake 22 / 0x0301 for the ClientHello record, 22 / 20 / 23 and 0x0303 for the reply,
23 / 0x0303 for application data; cert lengths are positive and small -/
theorem gen_literals :
    handshakeType = 22 ∧ versionTLS11 = 0x0301 ∧ applicationDataType = 23 ∧ versionTLS13 = 0x0303 ∧
    replyVersion = [3, 3] ∧ replyHelloType = [0x16] ∧ replyCCSType = [0x14] ∧ replyCCSBody = [1] ∧ replyCertType = [0x17] ∧
    certLengths.all (fun n => decide (0 < n ∧ n ≤ 16640)) = true := by decide

/-- the server answers only a ClientHello whose session id has 32 bytes: `sessionId ++ keyShare` must have 64
bytes and the key share 32 -/
theorem c10_sid32 (sidLen ksLen : Nat) (h1 : ctxTagBad ((sidLen + ksLen : Nat) : Int) = false) (h2 : keyShareBad (ksLen : Int) = false) :
    sidLen = 32 := by
  unfold ctxTagBad at h1
  unfold keyShareBad at h2
  simp only [decide_eq_false_iff_not, ne_eq, Decidable.not_not] at h1 h2
  omega

/-! ## 2. The server flight -/

theorem keyExchange_length (enc rand4 : Bytes) (he : enc.length = 48) (hr : rand4.length = 4) :
    (keyExchange enc rand4).length = 32 := by
  unfold keyExchange Codec.putAt
  simp [shKeyExchangeLen, shKeyExchangeEncLo, shKeyExchangeEncHi, shKeyExchangeRandLo, shKeyExchangeRandHi, he, hr]

theorem helloRandom_length (nonce enc : Bytes) (hn : nonce.length = 12) (he : enc.length = 48) :
    (helloRandom nonce enc).length = 32 := by
  unfold helloRandom
  simp [shRandomNonceLo, shRandomNonceHi, shRandomEncLo, shRandomEncHi, hn, he]

theorem sh_shape (sid nonce enc rand4 : Bytes) :
    composeServerHello sid nonce enc rand4 =
      some ([2, 0, 0, 0x76, 3, 3] ++ (helloRandom nonce enc ++ (0x20 :: (sid ++ ([0x13, 0x02, 0, 0, 0x2e, 0, 0x33, 0, 0x24, 0, 0x1d, 0, 0x20] ++
        (keyExchange enc rand4 ++ [0, 0x2b, 0, 2, 3, 4])))))) := by
  unfold composeServerHello
  simp [shPieces, concatPieces, piece]

theorem parse_sh (R sid KX : Bytes) (hR : R.length = 32) (hs : sid.length = 32) (hK : KX.length = 32) :
    parseServerHello ([2, 0, 0, 0x76, 3, 3] ++ (R ++ (0x20 :: (sid ++ ([0x13, 0x02, 0, 0, 0x2e, 0, 0x33, 0, 0x24, 0, 0x1d, 0, 0x20] ++
        (KX ++ [0, 0x2b, 0, 2, 3, 4])))))) =
      some ⟨R, sid, [0x13, 0x02], [0], [(0x33, 0 :: 0x1d :: 0 :: 0x20 :: KX), (0x2b, [3, 4])]⟩ := by
  simp only [List.cons_append, List.nil_append, parseServerHello]
  have hlen : (R ++ 0x20 :: (sid ++ 0x13 :: 0x02 :: 0 :: 0 :: 0x2e :: 0 :: 0x33 :: 0 :: 0x24 :: 0 :: 0x1d :: 0 :: 0x20 :: (KX ++ [0, 0x2b, 0, 2, 3, 4]))).length = 116 := by
    simp [hR, hs, hK]
  rw [if_neg (by rw [hlen]; decide), if_neg (by rw [hlen]; decide)]
  rw [List.take_left' hR, List.drop_left' hR]
  simp only
  rw [if_neg (by simp [hs, hK])]
  have h32 : (0x20 : UInt8).toNat = 32 := by decide
  rw [h32, List.take_left' hs, List.drop_left' hs]
  simp only
  rw [if_neg (by decide), if_neg (by simp [hK])]
  simp [parseExts, hK, List.take_left' hK, List.drop_left' hK]

theorem record_shape (t v0 v1 : UInt8) (body : Bytes) :
    record [t] [v0, v1] body = t :: v0 :: v1 :: UInt8.ofNat (body.length / 256) :: UInt8.ofNat body.length :: body := by
  simp [record, slot, be16]

theorem record_append (t v0 v1 : UInt8) (body rest : Bytes) :
    record [t] [v0, v1] body ++ rest = t :: v0 :: v1 :: UInt8.ofNat (body.length / 256) :: UInt8.ofNat body.length :: (body ++ rest) := by
  simp [record, slot, be16]

/-- **C10 (server flight).** For every 32-byte session id (the only kind the server answers, `c10_sid32`), every
nonce, encrypted key, random draw and every cert filler of 1..16640 bytes, what `composeReply` returns is exactly:
a ServerHello record (22, 0x0303) whose body is a well-formed ServerHello echoing the session id with suite
0x1302, an X25519 key share of 32 bytes and supported_versions 0x0304; a ChangeCipherSpec record; one
application-data record. -/
theorem c10_reply_valid (sid nonce enc rand4 cert : Bytes) (hs : sid.length = 32) (hn : nonce.length = 12) (he : enc.length = 48)
    (hr : rand4.length = 4) (hc0 : 0 < cert.length) (hc1 : cert.length ≤ 16640) :
    ∃ reply, composeReply sid nonce enc rand4 cert = some reply ∧ validServerFlight sid reply = true := by
  have hR := helloRandom_length nonce enc hn he
  have hK := keyExchange_length enc rand4 he hr
  unfold composeReply
  rw [sh_shape]
  simp only [Option.map_some]
  refine ⟨_, rfl, ?_⟩
  generalize hsh : ([2, 0, 0, 0x76, 3, 3] ++ (helloRandom nonce enc ++ (0x20 :: (sid ++ ([0x13, 0x02, 0, 0, 0x2e, 0, 0x33, 0, 0x24, 0, 0x1d, 0, 0x20] ++
        (keyExchange enc rand4 ++ [0, 0x2b, 0, 2, 3, 4])))))) = sh
  have hshl : sh.length = 122 := by rw [← hsh]; simp [hR, hs, hK]
  have hparse := parse_sh (helloRandom nonce enc) sid (keyExchange enc rand4) hR hs hK
  rw [hsh] at hparse
  have hrec : records (record replyHelloType replyVersion sh ++ (record replyCCSType replyVersion replyCCSBody ++ record replyCertType replyVersion cert))
      = some [⟨0x16, [3, 3], sh⟩, ⟨0x14, [3, 3], [1]⟩, ⟨0x17, [3, 3], cert⟩] := by
    have hnil : record replyCertType replyVersion cert = record replyCertType replyVersion cert ++ [] := (List.append_nil _).symm
    rw [hnil]
    simp only [replyHelloType, replyVersion, replyCCSType, replyCCSBody, replyCertType]
    rw [record_append, records_cons _ _ _ sh _ (by omega), record_append, records_cons _ _ _ [1] _ (by decide),
      record_append, records_cons _ _ _ cert _ (by omega), records_nil]
    rfl
  unfold validServerFlight validServerStream
  rw [hrec]
  simp only [hparse]
  simp [validServerHello, findExt, validAppRec, hs, hR, hK, hc0, hc1]

/-! ## 3. Application data -/

theorem gen_tlsTooLong (n : Nat) : tlsTooLong n = decide (16640 < n) := by
  unfold tlsTooLong; gen_bool

/-- what one `TLSConn.Write` puts on the wire, in front of whatever follows -/
theorem tlsWrite_shape (inp out : Bytes) (h : tlsWrite inp = some out) (rest : Bytes) :
    inp.length ≤ 16640 ∧
    out ++ rest = 23 :: 3 :: 3 :: UInt8.ofNat (inp.length / 256) :: UInt8.ofNat inp.length :: (inp ++ rest) := by
  unfold tlsWrite at h
  rw [gen_tlsTooLong] at h
  split at h
  · cases h
  · rename_i hl
    have hl' : inp.length ≤ 16640 := by simpa using hl
    have ho := Option.some.inj h
    rw [← ho]
    have e1 : UInt8.ofNat applicationDataType.toNat = 23 := by decide
    have e2 : UInt8.ofNat (versionTLS13.toNat / 256) = 3 := by decide
    have e3 : UInt8.ofNat versionTLS13.toNat = 3 := by decide
    rw [e1, e2, e3]
    exact ⟨hl', by simp⟩

/-- the byte stream produced by a sequence of `TLSConn.Write` calls (`none` if one is refused) -/
def wire : List Bytes → Option Bytes
  | [] => some []
  | m :: ms => do
    let r ← tlsWrite m
    let rs ← wire ms
    pure (r ++ rs)

theorem wire_records : ∀ (msgs : List Bytes) (out : Bytes), wire msgs = some out →
    records out = some (msgs.map (fun m => ⟨23, [3, 3], m⟩)) ∧ ∀ m ∈ msgs, m.length ≤ 16640 := by
  intro msgs
  induction msgs with
  | nil => intro out h; simp [wire] at h; subst h; exact ⟨records_nil, by simp⟩
  | cons m ms ih =>
    intro out h
    simp only [wire, Option.bind_eq_bind] at h
    cases hw : tlsWrite m with
    | none => rw [hw] at h; simp at h
    | some r =>
      cases hws : wire ms with
      | none => rw [hw, hws] at h; simp at h
      | some rs =>
        rw [hw, hws] at h
        simp at h
        subst h
        obtain ⟨hlen, hshape⟩ := tlsWrite_shape m r hw rs
        obtain ⟨ihr, ihl⟩ := ih rs hws
        rw [hshape, records_cons _ _ _ m rs (by omega), ihr]
        refine ⟨by simp, ?_⟩
        intro x hx
        simp only [List.mem_cons] at hx
        rcases hx with rfl | hx
        · exact hlen
        · exact ihl x hx

/-- **C10 (application data).** Whatever non-empty messages are written through a `TLSConn`, in any number, the
bytes handed to the underlying connection form a sequence of application-data records (type 23, version 3.3,
0 < length ≤ 2^14+256), one record per write, nothing else. -/
theorem c10_appdata (msgs : List Bytes) (out : Bytes) (hne : ∀ m ∈ msgs, 0 < m.length) (hw : wire msgs = some out) :
    validAppStream out = true := by
  obtain ⟨hr, hl⟩ := wire_records msgs out hw
  unfold validAppStream
  rw [hr]
  simp only [List.all_map, List.all_eq_true]
  intro m hm
  simp [validAppRec, hne m hm, hl m hm]

/-- the whole server side: flight, then application data -/
theorem c10_server_stream (sid nonce enc rand4 cert : Bytes) (hs : sid.length = 32) (hn : nonce.length = 12) (he : enc.length = 48)
    (hr : rand4.length = 4) (hc0 : 0 < cert.length) (hc1 : cert.length ≤ 16640)
    (msgs : List Bytes) (out : Bytes) (hne : ∀ m ∈ msgs, 0 < m.length) (hw : wire msgs = some out) :
    ∃ reply, composeReply sid nonce enc rand4 cert = some reply ∧ validServerStream sid (reply ++ out) = true := by
  have hR := helloRandom_length nonce enc hn he
  have hK := keyExchange_length enc rand4 he hr
  obtain ⟨hrm, hl⟩ := wire_records msgs out hw
  unfold composeReply
  rw [sh_shape]
  simp only [Option.map_some]
  refine ⟨_, rfl, ?_⟩
  generalize hsh : ([2, 0, 0, 0x76, 3, 3] ++ (helloRandom nonce enc ++ (0x20 :: (sid ++ ([0x13, 0x02, 0, 0, 0x2e, 0, 0x33, 0, 0x24, 0, 0x1d, 0, 0x20] ++
        (keyExchange enc rand4 ++ [0, 0x2b, 0, 2, 3, 4])))))) = sh
  have hshl : sh.length = 122 := by rw [← hsh]; simp [hR, hs, hK]
  have hparse := parse_sh (helloRandom nonce enc) sid (keyExchange enc rand4) hR hs hK
  rw [hsh] at hparse
  have hrec : records ((record replyHelloType replyVersion sh ++ (record replyCCSType replyVersion replyCCSBody ++ record replyCertType replyVersion cert)) ++ out)
      = some (⟨0x16, [3, 3], sh⟩ :: ⟨0x14, [3, 3], [1]⟩ :: ⟨0x17, [3, 3], cert⟩ :: msgs.map (fun m => ⟨23, [3, 3], m⟩)) := by
    simp only [replyHelloType, replyVersion, replyCCSType, replyCCSBody, replyCertType, List.append_assoc]
    rw [record_append, records_cons _ _ _ sh _ (by omega), record_append, records_cons _ _ _ [1] _ (by decide),
      record_append, records_cons _ _ _ cert _ (by omega), hrm]
    rfl
  unfold validServerStream
  rw [hrec]
  simp only [hparse]
  simp only [List.all_map]
  have hall : (msgs.all fun m => validAppRec ⟨23, [3, 3], m⟩) = true := by
    rw [List.all_eq_true]; intro m hm; simp [validAppRec, hne m hm, hl m hm]
  simp [validServerHello, findExt, validAppRec, hs, hR, hK, hc0, hc1]
  intro x hx
  exact ⟨hne x hx, hl x hx⟩

/-- **C10 (frames fit).** Every frame the multiplexer produces for a payload within the per-frame maximum of the
limit both endpoints configure is accepted by `TLSConn.Write` and becomes one record of 23..16401 bytes. -/
theorem c10_frames_fit (C : Codec.Crypto) (hL : Codec.Lawful C) (key : Bytes) (f : Codec.Frame) (bufLen padDraw : Nat) (rnd msg : Bytes)
    (hdraw : (padDraw : Int) < Gen.Codec.padBound (Codec.tagLenOf C))
    (hrnd : rnd.length = Codec.padLenOf f padDraw + Codec.tagLenOf C)
    (hp : (f.payload.length : Int) ≤ Gen.Codec.maxStreamUnitWrite appDataMaxLengthClient)
    (hok : Codec.obfuscate C key f bufLen padDraw rnd = .ok msg) :
    ∃ out, tlsWrite msg = some out ∧ records out = some [⟨23, [3, 3], msg⟩] ∧ 23 ≤ msg.length ∧ msg.length ≤ 16401 := by
  obtain ⟨_, h2, h3⟩ := C04.c04_size C hL key f bufLen padDraw rnd msg appDataMaxLengthClient hdraw hrnd hp hok
  have hlim : appDataMaxLengthClient = 16401 := by decide
  rw [hlim] at h2
  have hle : msg.length ≤ 16401 := by omega
  have hw : ∃ out, tlsWrite msg = some out := by
    unfold tlsWrite
    rw [gen_tlsTooLong, if_neg (by simp; omega)]
    exact ⟨_, rfl⟩
  obtain ⟨out, ho⟩ := hw
  refine ⟨out, ho, ?_, h3, hle⟩
  have := wire_records [msg] out (by simp [wire, ho])
  simpa using this.1

/-! ## 4. The client's first flight (partial: the ClientHello body comes from uTLS) -/

/-- **C10 (ClientHello record, partial).** The first thing a client writes is exactly one handshake record
(type 22, version 0x0301) whose body is the uTLS-built ClientHello, followed by application-data records only.
That the body itself is a structurally valid ClientHello with SNI, 32-byte session id and X25519 share is
what `TLSWire.clientFields` checks on real uTLS output in the harness; it is not provable here. -/
theorem c10_hello (ch : Bytes) (hch : ch.length < 65536) (msgs : List Bytes) (out : Bytes) (hw : wire msgs = some out) :
    records (TLSWire.clientHelloRecord ch ++ out) = some (⟨22, [3, 1], ch⟩ :: msgs.map (fun m => ⟨23, [3, 3], m⟩)) := by
  obtain ⟨hrm, _⟩ := wire_records msgs out hw
  unfold TLSWire.clientHelloRecord
  have e1 : UInt8.ofNat handshakeType.toNat = 22 := by decide
  have e2 : UInt8.ofNat (versionTLS11.toNat / 256) = 3 := by decide
  have e3 : UInt8.ofNat versionTLS11.toNat = 1 := by decide
  rw [e1, e2, e3]
  simp only [List.cons_append, List.nil_append]
  rw [records_cons _ _ _ ch out hch, hrm]
  rfl

/-- if the validator accepts the client's side, the three fields the server needs are there with the right sizes -/
theorem c10_hello_fields (b : Bytes) (f : ClientFields) (h : validClientStream b = some f) :
    f.sid.length = 32 ∧ f.share.length = 32 ∧ 0 < f.sni.length := by
  unfold validClientStream at h
  split at h
  · rename_i r0 rest hr
    split at h
    · rename_i cf hcf
      split at h
      · cases h
        unfold clientFields at hcf
        split at hcf
        · cases hcf
        · split at hcf
          · cases hcf
          · rename_i hh hp
            split at hcf
            · rename_i sn ks h1 h2
              split at hcf
              · rename_i name share hn hsx
                split at hcf
                · rename_i hcond
                  cases hcf
                  refine ⟨hcond.1, hcond.2.1, ?_⟩
                  unfold sniName at hn
                  split at hn
                  · split at hn
                    · rename_i hc
                      cases hn
                      exact hc.2.2
                    · cases hn
                  · cases hn
                · cases hcf
              · cases hcf
            · cases hcf
      · cases h
    · cases h
  · cases h

-- non-vacuity: a concrete reply (32-byte sid, cert of 27 bytes) followed by two writes
set_option maxRecDepth 16000 in
example :
    let sid : Bytes := List.replicate 32 0xab
    (match composeReply sid (List.replicate 12 1) (List.replicate 48 2) [9, 9, 9, 9] (List.replicate 27 5), wire [[1, 2, 3], List.replicate 300 7] with
     | some reply, some out => validServerFlight sid reply && validServerStream sid (reply ++ out) && reply.length == 5 + 122 + 6 + 5 + 27
     | _, _ => false) = true := by
  decide

end C10

#print axioms C10.c10_reply_valid
#print axioms C10.c10_appdata
#print axioms C10.c10_server_stream
#print axioms C10.c10_frames_fit
#print axioms C10.c10_hello
