import CloakModel.Props.E2E
import CloakModel.Props.C05
import CloakModel.Props.C01Relay

/-! # End to end, from the bytes on each connection (C05 ∘ C04 ∘ C01)

`Props/E2E.lean` starts at whole wire messages.  Here the starting point is what a TCP connection really
carries: on every underlying connection the sending endpoint wrote its messages one `TLSConn.Write` each
(`Rec.record`), the byte stream reaches the receiver cut into ANY segments (`Rec.Chunks`), the receive loop of
that connection (`switchboard.deplex`) reads record after record (`Rec.readAll`) and hands every whole one to
the session (`recvDataFromRemote` = `E2E.recvMsg`: decode, demultiplex, reassemble); the loops of the
different connections and the applications' reads interleave in any global order.

`conn_handed` (from `c05_roundtrip`) : each loop hands over exactly the messages written on its connection,
whole and in order, whatever the segmentation.  `labelled` (from `c04_roundtrip`) : each of them decodes to
the frame it was made from.  `c01_end_to_end_bytes` / `c01_end_to_end_bytes_prefix` then reduce to
`E2E.c01_end_to_end` / `E2E.c01_end_to_end_prefix`. -/
set_option linter.unusedVariables false

namespace E2E
open Deliver Codec Rec

/-- what one receive loop hands to the session: it reads records until the first error (then the connection
is dropped) and passes every whole record on -/
def handedOver : List (Except RErr Bytes) → List Bytes
  | [] => []
  | .ok m :: r => m :: handedOver r
  | .error _ :: _ => []

theorem handedOver_ok (ms : List Bytes) : handedOver (ms.map .ok) = ms := by
  induction ms with
  | nil => rfl
  | cons m r ih => simp [handedOver, ih]

/-- **Record layer of one connection.**  Messages `ms` (each within the write limit) written one `Write` each,
read with buffers that hold them, over ANY segmentation of the byte stream (followed by anything): the loop
hands over exactly `ms`. -/
theorem conn_handed (ms : List Bytes) (bufs : List Nat) (tail : Bytes) (cs : Chunks)
    (hf : C05.Fits ms bufs) (hcs : cs.flatten = (ms.map record).flatten ++ tail) :
    handedOver (readAll bufs cs) = ms := by
  rw [C05.c05_roundtrip ms bufs tail cs hf hcs, handedOver_ok]

/-- what happens at the receiving endpoint, as the receiver sees it: the loop of connection `conn` hands over a
message, or an application reads -/
inductive REv
  | got (conn : Nat) (m : Bytes)
  | read (sid : Nat) (k : Nat)

def rstep (C : Crypto) (key : Bytes) (t : Tbl) : REv → Tbl
  | .got _ m => recvMsg C key t m
  | .read sid k => gstep t (.read sid k)

def onConn (c : Nat) : REv → Option Bytes
  | .got c' m => if c' = c then some m else none
  | .read _ _ => none

/-- the frame a received message stands for (what `deobfuscate` makes of it) -/
def label (C : Crypto) (key : Bytes) : REv → NEv
  | .got _ m =>
    match deobfuscate C key m with
    | .ok fr => .msg fr.sid ⟨fr.seq, fr.closing != 0, fr.payload⟩ m
    | _ => .read 0 0
  | .read sid k => .read sid k

/-- what the sending endpoint put on a connection: the wire message `m` made from frame `f` of stream `sid` -/
structure Sent where
  sid : Nat
  f : RB.Frame
  m : Bytes

theorem label_enc (C : Crypto) (hL : Lawful C) (key : Bytes) (c sid : Nat) (f : RB.Frame) (m : Bytes)
    (h : IsEnc C key sid f m) : label C key (.got c m) = .msg sid f m := by
  obtain ⟨bufLen, padDraw, rnd, hsid, hseq, hpl, hcl, hdraw, hrnd, hbuf, hobf⟩ := h
  obtain ⟨msg, hm, hd⟩ := C04.c04_roundtrip C hL key ⟨sid, f.seq, 0, f.payload⟩ bufLen padDraw rnd hsid hseq hpl hdraw hrnd hbuf
  rw [hobf] at hm
  injection hm with hm
  subst hm
  show (match deobfuscate C key m with
    | .ok fr => NEv.msg fr.sid ⟨fr.seq, fr.closing != 0, fr.payload⟩ m
    | _ => NEv.read 0 0) = _
  rw [hd]
  obtain ⟨s, cl, p⟩ := f
  simp only at hcl
  subst hcl
  rfl

/-- every message the loops hand over was made by the sender from some frame: the run as the receiver sees it is
the labelled run of `E2E.recvStep`, and every labelled event is a genuine one -/
theorem labelled (C : Crypto) (hL : Lawful C) (key : Bytes) : ∀ (revs : List REv) (t : Tbl),
    (∀ c m, REv.got c m ∈ revs → ∃ sid f, IsEnc C key sid f m) →
    revs.foldl (rstep C key) t = (revs.map (label C key)).foldl (recvStep C key) t ∧
    ∀ e ∈ revs.map (label C key), e.ok C key := by
  intro revs
  induction revs with
  | nil => intro t _; exact ⟨rfl, by simp⟩
  | cons e r ih =>
    intro t h
    have hr : ∀ c m, REv.got c m ∈ r → ∃ sid f, IsEnc C key sid f m := fun c m hm => h c m (by simp [hm])
    have hstep : rstep C key t e = recvStep C key t (label C key e) ∧ (label C key e).ok C key := by
      cases e with
      | got c m =>
        obtain ⟨sid, f, henc⟩ := h c m (by simp)
        rw [label_enc C hL key c sid f m henc]
        exact ⟨rfl, henc⟩
      | read sid k => exact ⟨rfl, trivial⟩
    obtain ⟨ih1, ih2⟩ := ih (rstep C key t e) hr
    refine ⟨?_, ?_⟩
    · simp only [List.foldl_cons, List.map_cons]
      rw [ih1, hstep.1]
    · intro x hx
      simp only [List.map_cons, List.mem_cons] at hx
      rcases hx with hx | hx
      · rw [hx]; exact hstep.2
      · exact ih2 x hx

/-- the per-connection hypotheses: what was sent on connection `c`, how its bytes were cut, which buffers its
loop read with, and that the events of `c` in the global run are what that loop handed over, in order -/
structure Wire (C : Crypto) (key : Bytes) (revs : List REv) where
  sent : Nat → List Sent
  bufs : Nat → List Nat
  cs : Nat → Chunks
  tail : Nat → Bytes
  genuine : ∀ c, ∀ s ∈ sent c, IsEnc C key s.sid s.f s.m
  fits : ∀ c, C05.Fits ((sent c).map (·.m)) (bufs c)
  bytes : ∀ c, (cs c).flatten = (((sent c).map (·.m)).map record).flatten ++ tail c
  loop : ∀ c, revs.filterMap (onConn c) = handedOver (readAll (bufs c) (cs c))

theorem wire_genuine (C : Crypto) (key : Bytes) (revs : List REv) (w : Wire C key revs) :
    ∀ c m, REv.got c m ∈ revs → ∃ sid f, IsEnc C key sid f m := by
  intro c m hm
  have h1 : m ∈ revs.filterMap (onConn c) := by
    rw [List.mem_filterMap]
    exact ⟨.got c m, hm, by simp [onConn]⟩
  rw [w.loop c, conn_handed _ _ _ _ (w.fits c) (w.bytes c)] at h1
  rw [List.mem_map] at h1
  obtain ⟨s, hs, hsm⟩ := h1
  exact ⟨s.sid, s.f, hsm ▸ w.genuine c s hs⟩

/-- **End to end from the bytes (completeness).**  The sender wrote `writes` on stream `sid`; every frame of every
stream was encoded (any lawful cipher, key, padding) and written as one record on some connection; each
connection's byte stream arrived cut into ANY segments; each receive loop read records and handed them to the
session; loops and application reads interleaved in ANY global order; each of `sid`'s frames arrived exactly
once.  Then the receiver ends with bytes read ++ bytes buffered on `sid` = exactly the bytes written. -/
theorem c01_end_to_end_bytes (C : Crypto) (hL : Lawful C) (key : Bytes) (limit : Int) (hl : 1 ≤ unitOf limit)
    (writes : List Bytes) (sid : Nat) (revs : List REv) (w : Wire C key revs)
    (hn : (writes.flatMap (chunks limit)).length < RB.W)
    (hsub : ∀ f ∈ C01.deliveredTo sid ((revs.map (label C key)).map NEv.toG), f ∈ framesOf limit writes)
    (hperm : ((C01.deliveredTo sid ((revs.map (label C key)).map NEv.toG)).map (·.seq)).Perm
      (List.range (writes.flatMap (chunks limit)).length)) :
    let sb := (revs.foldl (rstep C key) tbl0) sid
    sb.out ++ sb.buf = writes.flatten := by
  intro sb
  obtain ⟨h1, h2⟩ := labelled C hL key revs tbl0 (wire_genuine C key revs w)
  show ((revs.foldl (rstep C key) tbl0) sid).out ++ ((revs.foldl (rstep C key) tbl0) sid).buf = _
  rw [h1]
  exact c01_end_to_end C hL key limit hl writes sid _ h2 hn hsub hperm

/-- **End to end from the bytes (every reachable state).**  Any duplicate-free subset of `sid`'s frames has
arrived so far: the receiver holds an in-order prefix of the bytes written. -/
theorem c01_end_to_end_bytes_prefix (C : Crypto) (hL : Lawful C) (key : Bytes) (limit : Int) (hl : 1 ≤ unitOf limit)
    (writes : List Bytes) (sid : Nat) (revs : List REv) (w : Wire C key revs)
    (hn : (writes.flatMap (chunks limit)).length < RB.W)
    (hsub : ∀ f ∈ C01.deliveredTo sid ((revs.map (label C key)).map NEv.toG), f ∈ framesOf limit writes)
    (hnd : ((C01.deliveredTo sid ((revs.map (label C key)).map NEv.toG)).map (·.seq)).Nodup) :
    let sb := (revs.foldl (rstep C key) tbl0) sid
    ∃ m, m ≤ (writes.flatMap (chunks limit)).length ∧
      sb.out ++ sb.buf = ((writes.flatMap (chunks limit)).take m).flatten := by
  intro sb
  obtain ⟨h1, h2⟩ := labelled C hL key revs tbl0 (wire_genuine C key revs w)
  show ∃ m, m ≤ _ ∧ ((revs.foldl (rstep C key) tbl0) sid).out ++ ((revs.foldl (rstep C key) tbl0) sid).buf = _
  rw [h1]
  exact c01_end_to_end_prefix C hL key limit hl writes sid _ h2 hn hsub hnd


/-! ### the hypotheses are satisfiable

One connection, the executable toy cipher of `Props/C04.lean` without AEAD: stream 7 wrote the byte `0xaa`; its frame was
encoded (23 bytes), written as one record (28 bytes) and arrived cut into three segments — inside the record
header and inside the message; the loop read with a 20480-byte buffer; then the application read. -/
namespace Witness
open C04

def wf : RB.Frame := ⟨0, false, [0xaa]⟩
def wm : Bytes := match obfuscate toyPlain [] ⟨7, 0, 0, [0xaa]⟩ 16401 0 (List.replicate 8 1) with | .ok m => m | _ => []
def wrevs : List REv := [.got 0 wm, .read 7 1]
def wsegs : Chunks := [(record wm).take 3, ((record wm).drop 3).take 11, (record wm).drop 14]

theorem wm_enc : IsEnc toyPlain [] 7 wf wm := by
  refine ⟨16401, 0, List.replicate 8 1, by decide, by decide, by decide, rfl, by decide, by decide, ?_, by decide⟩
  unfold C04.fitsBuf; decide

def wire : Wire toyPlain [] wrevs where
  sent := fun c => if c = 0 then [⟨7, wf, wm⟩] else []
  bufs := fun c => if c = 0 then [20480] else []
  cs := fun c => if c = 0 then wsegs else []
  tail := fun _ => []
  genuine := by
    intro c s hs
    by_cases h : c = 0
    · simp only [h, if_true, List.mem_singleton] at hs
      subst hs; exact wm_enc
    · simp [h] at hs
  fits := by
    intro c
    by_cases h : c = 0
    · simp only [h, if_true, List.map_cons, List.map_nil]
      exact .cons (by decide) (by decide) (by decide) .nil
    · simp only [h, if_false, List.map_nil]; exact .nil
  bytes := by
    intro c
    by_cases h : c = 0
    · simp only [h, if_true]; decide
    · simp [h]
  loop := by
    intro c
    by_cases h : c = 0
    · subst h
      simp only [if_true]
      rw [conn_handed [wm] [20480] [] wsegs (.cons (by decide) (by decide) (by decide) .nil) (by decide)]
      simp [wrevs, onConn]
    · have h' : ¬ (0 = c) := fun e => h e.symm
      simp [h, h', wrevs, onConn, readAll, handedOver]

/-- the run of the witness: the application has read the byte that was written -/
example : ((wrevs.foldl (rstep toyPlain []) tbl0) 7).out = [0xaa] := by decide

end Witness

end E2E

#print axioms E2E.c01_end_to_end_bytes
#print axioms E2E.c01_end_to_end_bytes_prefix
#print axioms E2E.conn_handed
