import CloakModel.Model.SessionOps
import CloakModel.Props.C12

/-! # C12 — `Session.Close` sweeps the connections whether or not the closing notice could be sent

`SO.sessClose` is the Go operation (`closeSession`; for `Close` the closing notice; `closeAll`) as a sequence of
`SM` events. Before /repo's fix `Close` returned the send error before its `closeAll`, so a connection whose
`AddConnection` was under way when the session closed (and which therefore was not there for `send`'s own
`passiveClose` — a repeat — to close) stayed open for ever: the red team's close-while-adding finding. Whether the
sweep is unconditional is read from the source (`Gen.Session.closeSweepsEvenIfNoticeFails`). -/
set_option linter.unusedSimpArgs false
namespace C12
open SM

/-- **C12 (Close, failing notice).** Whatever the state of the side — writes failing or not, called by the
application or by the inactivity timer — the `Close`/`passiveClose` that wins the `closed` CAS marks the switchboard
broken, and (if it was not broken before) leaves every pooled connection closed. -/
theorem c12_close_always_sweeps (sd : SO.Side) (active timer : Bool)
    (h : (SO.sessClose sd active timer).2 ≠ .repeat_) :
    (SO.sessClose sd active timer).1.sm.broken = true ∧
    (sd.sm.broken = false → ∀ c ∈ (SO.sessClose sd active timer).1.sm.conns, c = false) := by
  have hg := gen_late_conn.2
  unfold SO.sessClose at h ⊢
  simp only [SO.ev] at h ⊢
  cases timer <;> simp only [Bool.false_eq_true, if_false, if_true] at h ⊢
  · -- `.cas`
    cases hc : sd.sm.closed
    · simp [step, hc, hg] at h ⊢
      cases hb : sd.sm.broken <;> cases active <;> cases hw : sd.wfail <;> simp [hb, hw]
    · simp [step, hc] at h
  · -- `.tmoCas`
    cases hp : sd.sm.tmoPending
    · simp [step, hp] at h
    · cases hc : sd.sm.closed
      · simp [step, hp, hc, hg] at h ⊢
        cases hb : sd.sm.broken <;> cases active <;> cases hw : sd.wfail <;> simp [hb, hw]
      · simp [step, hp, hc] at h

/-- the pinned `Close` (sweep only after a successful send): a side whose writes fail keeps its connection open -/
theorem c12_close_pinned_witness :
    let sd : SO.Side := { sm := { conns := [true] }, wfail := true }
    let sd' := (SO.ev (SO.ev sd .cas).1 .sweep).1     -- what the pinned `Close` did before returning the send error
    sd'.sm.broken = false ∧ sd'.sm.conns = [true] := by decide

end C12
