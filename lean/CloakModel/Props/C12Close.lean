import CloakModel.Model.SessionOps
import CloakModel.Props.C12

/-! # C12 — `Session.Close` sweeps the connections whether or not the closing notice could be sent

`SO.sessClose` is the Go operation (`closeSession`; for `Close` the closing notice; `closeAll`) as a sequence of
`SM` events. Before /repo's fix `Close` returned the send error before its `closeAll`, so a connection whose
`AddConnection` was under way when the session closed (and which therefore was not there for `send`'s own
`passiveClose` — a repeat — to close) stayed open for ever: the red team's close-while-adding finding. Whether the
sweep is unconditional is read from the source (`Gen.Session.closeSweepsEvenIfNoticeFails`). -/
set_option linter.unusedSimpArgs false
namespace C12
open SM

/-- **C12 (Close, failing notice).** Whatever the state of the side — writes failing or not, called by the
application or by the inactivity timer — the `Close`/`passiveClose` that wins the `closed` CAS marks the switchboard
broken, and (if it was not broken before) leaves every pooled connection closed. -/
theorem c12_close_always_sweeps (sd : SO.Side) (active timer : Bool)
    (h : (SO.sessClose sd active timer).2 ≠ .repeat_) :
    (SO.sessClose sd active timer).1.sm.broken = true ∧
    (sd.sm.broken = false → ∀ c ∈ (SO.sessClose sd active timer).1.sm.conns, c = false) := by
  have hg := gen_late_conn.2
  unfold SO.sessClose at h ⊢
  simp only [SO.ev] at h ⊢
  cases timer <;> simp only [Bool.false_eq_true, if_false, if_true] at h ⊢
  · -- `.cas`
    cases hc : sd.sm.closed
    · simp [step, hc, hg] at h ⊢
      cases hb : sd.sm.broken <;> cases active <;> cases hw : sd.wfail <;> simp [hb, hw]
    · simp [step, hc] at h
  · -- `.tmoCas`
    cases hp : sd.sm.tmoPending
    · simp [step, hp] at h
    · cases hc : sd.sm.closed
      · simp [step, hp, hc, hg] at h ⊢
        cases hb : sd.sm.broken <;> cases active <;> cases hw : sd.wfail <;> simp [hb, hw]
      · simp [step, hp, hc] at h

/-- the pinned `Close` (sweep only after a successful send): a side whose writes fail keeps its connection open -/
theorem c12_close_pinned_witness :
    let sd : SO.Side := { sm := { conns := [true] }, wfail := true }
    let sd' := (SO.ev (SO.ev sd .cas).1 .sweep).1     -- what the pinned `Close` did before returning the send error
    sd'.sm.broken = false ∧ sd'.sm.conns = [true] := by decide

end C12

/-! ## a stream refused for a full accept backlog is told so

A stream that arrives while the accept queue is full is refused (31ee1ad: the blocking send under `streamsM` was the
teardown hang). The refusal remembers the id as closed — later frames are dropped, the stream count is not touched — and
queues the id for the session's one `tellRefusals` goroutine, which sends the peer a stream-closing frame: its writes
fail and its readers return instead of waiting on a stream nobody will ever serve. (History: first silent — found by the
review of the repairs; then a registered stream closed by a goroutine per refusal — found by the next review: unbounded
goroutines and buffered frames under a peer that does not read; now a bounded queue and one sender.) The session model
follows the facts; the closing frames each side has put on the wire are part of the state the correspondence compares
after every operation (`sent=`). Assumed: the queue (as long as the backlog) is not full. -/
namespace C12
open SM

theorem gen_refusal :
    Gen.Session.refusedStreamClosedActively = false ∧ Gen.Session.refusedStreamToldFromQueue = true ∧
    Gen.Session.recvEnqueueNonBlocking = true := by decide

/-- **C12 (a refusal leaves the bookkeeping as it found it).** In ANY state of a live session whose accept queue is full,
the frame of an unknown stream `id` is refused, and afterwards the id is remembered as closed while the queue, the count,
the pending updates and the rest of the table are exactly as before: nothing drifts, whatever the number of refusals. -/
theorem c12_refusal_events (s : St) (id : Nat) (hcl : s.closed = false) (hid : hasId id s.tbl = false)
    (hfull : Gen.Session.acceptBacklog ≤ (s.accq.length : Int)) :
    step s (.recvNew id) = ({ s with tbl := (id, .tomb) :: s.tbl }, .refused) := by
  have hg := gen_refusal.1
  simp [step, hcl, hid, hfull, hg]

/-- a side whose accept queue holds `acceptBacklog` streams receives the first frame of yet another stream -/
def fullSide : SO.Side :=
  { sm := { accq := List.replicate Gen.Session.acceptBacklog.toNat 9, tbl := [(9, .opn)], count := 1 } }

/-- the refusal in the model: one closing frame goes out, the id is a tombstone afterwards, the count and the queue are
what they were, the frame's payload is dropped, and later frames of that stream are dropped too -/
theorem c12_refused_is_told :
    let r := SO.recv fullSide 77 0 0 [1, 2, 3] 0 1000
    r.2 = "dropped" ∧ r.1.csent = fullSide.csent + 1 ∧ SO.entOf r.1 77 = some .tomb ∧
    r.1.sm.count = fullSide.sm.count ∧ r.1.sm.accq.length = fullSide.sm.accq.length ∧
    (SO.recv r.1 77 1 0 [4] 0 1000).2 = "dropped" ∧ (SO.recv r.1 77 1 0 [4] 0 1000).1.csent = r.1.csent := by
  set_option maxRecDepth 100000 in decide

end C12
