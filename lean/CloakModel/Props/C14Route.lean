import CloakModel.Model.Route

/-! C14 (stream isolation) for the client's local routing table `client.RouteUDP`: theorems over ALL event histories
of the state machine `Route` (Model/Route.lean).  -/
namespace C14R
open Route

/-! ## the extracted facts the model rests on -/

/-- the reuse test is the one the model was written against: a new session exactly when not singleplex and the
current one is nil or closed -/
theorem gen_route_reuse : ∀ s n c : Bool, Gen.Route.routeUDPReuse s n c = (!s && (n || c)) := by decide

/-- statement order / lock scope / captured address / delete sites / deadline refresh sites of RouteUDP -/
theorem gen_route_structure :
    Gen.Route.routeUDPLookupOpenInsertLocked = true ∧ Gen.Route.routeUDPOpenFailPath = true ∧
    Gen.Route.routeUDPProxyAddrCaptured = true ∧ Gen.Route.routeUDPDeleteSites = 2 ∧
    Gen.Route.routeUDPDeletesAllLocked = true ∧ Gen.Route.routeUDPReturnLoop = true ∧
    Gen.Route.routeUDPDeadlineRefreshSites = 3 := by decide

/-- RouteTCP: same reuse test; first read of 1..10240 bytes under the deadline, which is then cleared; one OpenStream;
what each error path closes; then exactly the two copies between the local connection and ITS stream -/
theorem gen_route_tcp :
    (∀ s n c : Bool, Gen.Route.routeTCPReuse s n c = (!s && (n || c))) ∧
    Gen.Route.routeTCPFirstReadBuf = 10240 ∧ Gen.Route.routeTCPFirstReadMin = 1 ∧
    Gen.Route.routeTCPFirstReadOrder = true ∧ Gen.Route.routeTCPReadFailCloses = "localConn" ∧
    Gen.Route.routeTCPOpenFailCloses = "localConn,singleplex:sesh" ∧
    Gen.Route.routeTCPWriteFailCloses = "localConn,stream" ∧ Gen.Route.routeTCPCopiesBothWays = true := by decide

/-! ## the invariant -/

structure Inv (st : St) : Prop where
  /-- (c) every table entry names an opened stream, opened for that very address, whose return goroutine is live -/
  tbl : ∀ a s, (a, s) ∈ st.table → ∃ r ∈ st.streams, r.id = s ∧ r.addr = a ∧ r.live = true
  keys : ∀ a s1 s2, (a, s1) ∈ st.table → (a, s2) ∈ st.table → s1 = s2
  ids : ∀ r ∈ st.streams, r.id < st.nextId
  uniq : ∀ r1 ∈ st.streams, ∀ r2 ∈ st.streams, r1.id = r2.id → r1.addr = r2.addr
  wr : ∀ a s pl, (a, s, pl) ∈ st.writes → ∃ r ∈ st.streams, r.id = s ∧ r.addr = a
  dl : ∀ s a pl, (s, a, pl) ∈ st.delivs → ∃ r ∈ st.streams, r.id = s ∧ r.addr = a
  sessLt : ∀ r ∈ st.streams, r.sess < st.nextSess
  curLt : ∀ k, st.cur = some k → k < st.nextSess
  sp : st.single = true → ∀ r1 ∈ st.streams, ∀ r2 ∈ st.streams, r1.sess = r2.sess → r1.id = r2.id

theorem inv_init (single : Bool) (max : Nat) : Inv (St.init single max) := by
  constructor <;> simp [St.init]

theorem mem_delete {t : List (Nat × Nat)} {a : Nat} {p : Nat × Nat} : p ∈ delete t a ↔ p ∈ t ∧ p.1 ≠ a := by
  simp [delete]

theorem lookup_some {t : List (Nat × Nat)} {a s : Nat} (h : lookup t a = some s) : (a, s) ∈ t := by
  unfold lookup at h
  cases hf : t.find? (·.1 == a) with
  | none => simp [hf] at h
  | some p =>
    simp [hf] at h
    have h1 := List.find?_some hf
    have h2 := List.mem_of_find?_eq_some hf
    simp at h1
    cases p with
    | mk x y => simp at h h1; subst h; subst h1; exact h2

theorem lookup_none {t : List (Nat × Nat)} {a : Nat} (h : lookup t a = none) : ∀ s, (a, s) ∉ t := by
  intro s hm
  unfold lookup at h
  cases hf : t.find? (·.1 == a) with
  | some p => simp [hf] at h
  | none =>
    have := List.find?_eq_none.mp hf (a, s) hm
    simp at this

theorem rec_some {st : St} {s : Nat} {r : SRec} (h : rec? st s = some r) : r ∈ st.streams ∧ r.id = s := by
  unfold rec? at h
  have h1 := List.find?_some h
  have h2 := List.mem_of_find?_eq_some h
  simp at h1
  exact ⟨h2, h1⟩

/-- streams are only ever modified in their flags; the table only shrinks -/
theorem Inv.modify {st : St} (h : Inv st) (f : SRec → SRec) (t' : List (Nat × Nat)) (d : List Nat)
    (hid : ∀ r, (f r).id = r.id) (haddr : ∀ r, (f r).addr = r.addr) (hsess : ∀ r, (f r).sess = r.sess)
    (ht : ∀ p ∈ t', p ∈ st.table)
    (hl : ∀ a s, (a, s) ∈ t' → ∀ r ∈ st.streams, r.id = s → (f r).live = r.live) :
    Inv { st with table := t', streams := st.streams.map f, deadSess := d } := by
  constructor
  · intro a s hm
    obtain ⟨r, hr, h1, h2, h3⟩ := h.tbl a s (ht _ hm)
    refine ⟨f r, List.mem_map_of_mem hr, ?_, ?_, ?_⟩
    · simp [hid, h1]
    · simp [haddr, h2]
    · rw [hl a s hm r hr h1]; exact h3
  · intro a s1 s2 h1 h2; exact h.keys a s1 s2 (ht _ h1) (ht _ h2)
  · intro r hr
    obtain ⟨r0, hr0, rfl⟩ := List.mem_map.mp hr
    simp only [hid]; exact h.ids r0 hr0
  · intro r1 h1 r2 h2 he
    obtain ⟨a1, ha1, rfl⟩ := List.mem_map.mp h1
    obtain ⟨a2, ha2, rfl⟩ := List.mem_map.mp h2
    simp only [hid, haddr] at *
    exact h.uniq a1 ha1 a2 ha2 he
  · intro a s pl hm
    obtain ⟨r, hr, h1, h2⟩ := h.wr a s pl hm
    exact ⟨f r, List.mem_map_of_mem hr, by simp [hid, h1], by simp [haddr, h2]⟩
  · intro s a pl hm
    obtain ⟨r, hr, h1, h2⟩ := h.dl s a pl hm
    exact ⟨f r, List.mem_map_of_mem hr, by simp [hid, h1], by simp [haddr, h2]⟩
  · intro r hr
    obtain ⟨r0, hr0, rfl⟩ := List.mem_map.mp hr
    simp only [hsess]; exact h.sessLt r0 hr0
  · exact h.curLt
  · intro hs r1 h1 r2 h2 he
    obtain ⟨a1, ha1, rfl⟩ := List.mem_map.mp h1
    obtain ⟨a2, ha2, rfl⟩ := List.mem_map.mp h2
    simp only [hid, hsess] at *
    exact h.sp hs a1 ha1 a2 ha2 he

theorem Inv.closeStream {st : St} (h : Inv st) (s : Nat) : Inv (closeStream st s) := by
  refine h.modify (fun r => if r.id == s then { r with closed := true } else r) st.table st.deadSess ?_ ?_ ?_ (fun _ hp => hp) ?_
  all_goals (intros; split <;> rfl)

theorem Inv.closeSession {st : St} (h : Inv st) (k : Nat) : Inv (closeSession st k) := by
  refine h.modify (fun r => if r.sess == k then { r with closed := true } else r) st.table (k :: st.deadSess) ?_ ?_ ?_ (fun _ hp => hp) ?_
  all_goals (intros; split <;> rfl)

theorem Inv.dropEntry {st : St} (h : Inv st) (a : Nat) : Inv { st with table := delete st.table a } := by
  have := h.modify id (delete st.table a) st.deadSess (fun _ => rfl) (fun _ => rfl) (fun _ => rfl)
    (fun p hp => (mem_delete.mp hp).1) (fun _ _ _ _ _ _ => rfl)
  simpa using this

theorem Inv.newSession {st : St} (h : Inv st) (b : Bool) : Inv (newSession st b) := by
  constructor
  · exact h.tbl
  · exact h.keys
  · exact h.ids
  · exact h.uniq
  · exact h.wr
  · exact h.dl
  · intro r hr; have := h.sessLt r hr; simp [Route.newSession]; omega
  · intro k hk; simp [Route.newSession] at hk ⊢; omega
  · exact h.sp

theorem Inv.retExit {st : St} (h : Inv st) (s : Nat) : Inv (retExit st s) := by
  unfold Route.retExit
  cases hr : rec? st s with
  | none => exact h
  | some r =>
    obtain ⟨hmem, hid⟩ := rec_some hr
    simp only
    split
    · refine h.modify (fun x => if x.id == s then { x with closed := true, live := false } else x) (delete st.table r.addr) st.deadSess
        ?_ ?_ ?_ (fun p hp => (mem_delete.mp hp).1) ?_
      · intros; split <;> rfl
      · intros; split <;> rfl
      · intros; split <;> rfl
      · intro a s' hm r' hr' hid'
        obtain ⟨hm1, hm2⟩ := mem_delete.mp hm
        by_cases hs : r'.id = s
        · exfalso
          obtain ⟨r'', hr'', h1, h2, _⟩ := h.tbl a s' hm1
          have e1 := h.uniq r'' hr'' r hmem (by omega)
          simp at hm2; omega
        · simp [hs]
    · exact h

theorem Inv.streamDatagram {st : St} (h : Inv st) (s : Nat) (pl : Bytes) (f : Bool) : Inv (streamDatagram st s pl f) := by
  unfold Route.streamDatagram
  cases hr : rec? st s with
  | none => exact h
  | some r =>
    obtain ⟨hmem, hid⟩ := rec_some hr
    simp only
    split
    · split
      · exact h.retExit s
      · constructor
        · exact h.tbl
        · exact h.keys
        · exact h.ids
        · exact h.uniq
        · exact h.wr
        · intro s' a pl' hm
          simp at hm
          rcases hm with hm | ⟨rfl, rfl, rfl⟩
          · exact h.dl s' a pl' hm
          · exact ⟨r, hmem, hid, rfl⟩
        · exact h.sessLt
        · exact h.curLt
        · exact h.sp
    · exact h

theorem Inv.writeTo {st : St} (h : Inv st) (a s : Nat) (pl : Bytes)
    (hsa : ∀ r ∈ st.streams, r.id = s → r.addr = a) : Inv (writeTo st a s pl) := by
  unfold Route.writeTo
  cases hr : rec? st s with
  | none => exact h
  | some r =>
    obtain ⟨hmem, hid⟩ := rec_some hr
    simp only
    split
    · exact (h.dropEntry a).closeStream s
    · constructor
      · exact h.tbl
      · exact h.keys
      · exact h.ids
      · exact h.uniq
      · intro a' s' pl' hm
        simp at hm
        rcases hm with hm | ⟨rfl, rfl, rfl⟩
        · exact h.wr a' s' pl' hm
        · exact ⟨r, hmem, hid, hsa r hmem hid⟩
      · exact h.dl
      · exact h.sessLt
      · exact h.curLt
      · exact h.sp

/-- the table miss with a healthy session: the new stream, its table entry, its goroutine -/
theorem Inv.openStream {st : St} (h : Inv st) (a k sid : Nat) (hk : k < st.nextSess)
    (hmiss : ∀ s, (a, s) ∉ st.table) (hfresh : st.single = true → ∀ r ∈ st.streams, r.sess ≠ k) :
    Inv { st with streams := st.streams ++ [{ id := st.nextId, sess := k, sid, addr := a, closed := false, live := true }],
                  nextId := st.nextId + 1, table := (a, st.nextId) :: st.table } := by
  constructor
  · intro a' s hm
    simp at hm
    rcases hm with ⟨ha, hs⟩ | hm
    · subst ha; subst hs
      exact ⟨⟨st.nextId, k, sid, a', false, true⟩, by simp, rfl, rfl, rfl⟩
    · obtain ⟨r, hr, h1⟩ := h.tbl a' s hm
      exact ⟨r, by simp [hr], h1⟩
  · intro a' s1 s2 h1 h2
    simp at h1 h2
    rcases h1 with ⟨ha1, hs1⟩ | h1 <;> rcases h2 with ⟨ha2, hs2⟩ | h2
    · omega
    · subst ha1; exact absurd h2 (hmiss _)
    · subst ha2; exact absurd h1 (hmiss _)
    · exact h.keys a' s1 s2 h1 h2
  · intro r hr
    simp at hr ⊢
    rcases hr with hr | rfl
    · have := h.ids r hr; omega
    · simp
  · intro r1 h1 r2 h2 he
    simp at h1 h2
    rcases h1 with h1 | rfl <;> rcases h2 with h2 | rfl
    · exact h.uniq r1 h1 r2 h2 he
    · have := h.ids r1 h1; simp at he; omega
    · have := h.ids r2 h2; simp at he; omega
    · rfl
  · intro a' s pl hm
    obtain ⟨r, hr, h1⟩ := h.wr a' s pl hm
    exact ⟨r, by simp [hr], h1⟩
  · intro s a' pl hm
    obtain ⟨r, hr, h1⟩ := h.dl s a' pl hm
    exact ⟨r, by simp [hr], h1⟩
  · intro r hr
    simp at hr
    rcases hr with hr | rfl
    · exact h.sessLt r hr
    · exact hk
  · exact h.curLt
  · intro hs r1 h1 r2 h2 he
    simp at h1 h2
    rcases h1 with h1 | rfl <;> rcases h2 with h2 | rfl
    · exact h.sp hs r1 h1 r2 h2 he
    · exact absurd he (hfresh hs r1 h1)
    · exact absurd he.symm (hfresh hs r2 h2)
    · rfl

theorem Inv.localDatagram {st : St} (h : Inv st) (a : Nat) (pl : Bytes) (b : Bool) : Inv (localDatagram st a pl b) := by
  unfold Route.localDatagram
  -- the reuse test
  generalize hst1 : (if Gen.Route.routeUDPReuse st.single st.cur.isNone (seshClosed st) then Route.newSession st b else st) = st1
  have h1 : Inv st1 := by subst hst1; split; exact h.newSession b; exact h
  simp only
  cases hl : lookup st1.table a with
  | some s =>
    simp only
    have hm := lookup_some hl
    obtain ⟨r, hr, e1, e2, _⟩ := h1.tbl a s hm
    exact h1.writeTo a s pl (fun r' hr' hid' => by rw [h1.uniq r' hr' r hr (by omega)]; exact e2)
  | none =>
    simp only
    have hmiss := lookup_none hl
    generalize hst2 : (if st1.single = true then Route.newSession st1 b else st1) = st2
    have h2 : Inv st2 := by subst hst2; split; exact h1.newSession b; exact h1
    have htab : st2.table = st1.table := by subst hst2; split <;> rfl
    have hfresh : st2.single = true → ∀ k, st2.cur = some k → ∀ r ∈ st2.streams, r.sess ≠ k := by
      subst hst2
      intro hs k hk r hr
      split at hs
      · rename_i hsin
        simp [hsin, Route.newSession] at hk hr ⊢
        have := h1.sessLt r hr; omega
      · rename_i hsin; exact absurd hs hsin
    cases hc : st2.cur with
    | none => exact h2
    | some k =>
      simp only
      split
      · split
        · exact h2.closeSession k
        · exact h2
      · have ho := h2.openStream a k (1 + (st2.streams.filter (·.sess == k)).length) (h2.curLt k hc)
          (by rw [htab]; exact hmiss) (fun hs => hfresh hs k hc)
        rw [← hc]
        exact ho.writeTo a st2.nextId pl (by
          intro r hr hid
          simp at hr
          rcases hr with hr | rfl
          · have := h2.ids r hr; omega
          · rfl)

theorem inv_step {st : St} (h : Inv st) (ev : Ev) : Inv (step st ev) := by
  cases ev with
  | localDatagram a pl b => exact h.localDatagram a pl b
  | streamDatagram s pl f => exact h.streamDatagram s pl f
  | retExit s => exact h.retExit s
  | sessionClosed k => simp only [step]; split; exact h.closeSession k; exact h

theorem inv_run {st : St} (h : Inv st) (evs : List Ev) : Inv (run st evs) := by
  induction evs generalizing st with
  | nil => exact h
  | cons e es ih => exact ih (inv_step h e)

/-! ## headline theorems: for every event history from the initial state -/

/-- (a) ISOLATION, way in: two datagrams written to the same stream came from the same local address — a stream never
serves two addresses -/
theorem c14r_isolation_in (single : Bool) (max : Nat) (evs : List Ev) :
    let st := run (St.init single max) evs
    ∀ a1 a2 s p1 p2, (a1, s, p1) ∈ st.writes → (a2, s, p2) ∈ st.writes → a1 = a2 := by
  intro st a1 a2 s p1 p2 h1 h2
  have h := inv_run (inv_init single max) evs
  obtain ⟨r1, m1, i1, e1⟩ := h.wr a1 s p1 h1
  obtain ⟨r2, m2, i2, e2⟩ := h.wr a2 s p2 h2
  have := h.uniq r1 m1 r2 m2 (by omega)
  omega

/-- (a) ISOLATION, way back: every datagram delivered locally from stream s went to the address whose datagrams are
written to s (and so all deliveries of s go to one address) -/
theorem c14r_isolation_back (single : Bool) (max : Nat) (evs : List Ev) :
    let st := run (St.init single max) evs
    (∀ a s p a' p', (s, a, p) ∈ st.delivs → (a', s, p') ∈ st.writes → a = a') ∧
    (∀ a s p a' p', (s, a, p) ∈ st.delivs → (s, a', p') ∈ st.delivs → a = a') := by
  intro st
  have h := inv_run (inv_init single max) evs
  constructor
  · intro a s p a' p' h1 h2
    obtain ⟨r1, m1, i1, e1⟩ := h.dl s a p h1
    obtain ⟨r2, m2, i2, e2⟩ := h.wr a' s p' h2
    have := h.uniq r1 m1 r2 m2 (by omega)
    omega
  · intro a s p a' p' h1 h2
    obtain ⟨r1, m1, i1, e1⟩ := h.dl s a p h1
    obtain ⟨r2, m2, i2, e2⟩ := h.dl s a' p' h2
    have := h.uniq r1 m1 r2 m2 (by omega)
    omega

/-- (c) the table invariant that is TRUE: an entry names a stream opened for that address whose return goroutine is
live; one entry per address -/
theorem c14r_table_sound (single : Bool) (max : Nat) (evs : List Ev) :
    let st := run (St.init single max) evs
    (∀ a s, (a, s) ∈ st.table → ∃ r ∈ st.streams, r.id = s ∧ r.addr = a ∧ r.live = true) ∧
    (∀ a s1 s2, (a, s1) ∈ st.table → (a, s2) ∈ st.table → s1 = s2) := by
  intro st
  have h := inv_run (inv_init single max) evs
  exact ⟨h.tbl, h.keys⟩

/-- (d) singleplex: no two streams share a session -/
theorem c14r_singleplex (max : Nat) (evs : List Ev) :
    let st := run (St.init true max) evs
    ∀ r1 ∈ st.streams, ∀ r2 ∈ st.streams, r1.sess = r2.sess → r1.id = r2.id := by
  intro st
  have h := inv_run (inv_init true max) evs
  have hs : st.single = true := by
    have : ∀ (s : St) (l : List Ev), (run s l).single = s.single := by
      intro s l
      induction l generalizing s with
      | nil => rfl
      | cons e es ih =>
        show (run (step s e) es).single = s.single
        rw [ih]
        cases e <;> simp [step, Route.localDatagram, Route.streamDatagram, Route.retExit, Route.writeTo, Route.closeStream,
          Route.closeSession, Route.newSession] <;> (repeat' split) <;> rfl
    exact this _ _
  exact h.sp hs

/-- (c) the converse of the table invariant, the full statement one would like: every live, open stream is still in
the table (so its address keeps using it and nothing leaks until the deadline) -/
def c14r_table_complete_full : Prop :=
  ∀ (single : Bool) (max : Nat) (evs : List Ev),
    let st := run (St.init single max) evs
    ∀ r ∈ st.streams, r.live = true → r.closed = false → (r.addr, r.id) ∈ st.table

/-- the stolen delete: address 7's first datagram is too large, so its stream 0 is dropped from the table and closed
(write-error path) while goroutine 0 is still on its way out; the next datagram of 7 opens stream 1; then goroutine 0
runs its `delete(streams, addr.String())` — and removes the entry of stream 1.  Stream 1 stays open with a live
goroutine (bound to 7, so still isolated), but address 7's next datagram opens stream 2. -/
def stolen : List Ev := [.localDatagram 7 [1, 2, 3] false, .localDatagram 7 [1] false, .retExit 0]

theorem c14r_table_complete_witness : ¬ c14r_table_complete_full := by
  intro h
  have := h false 2 stolen ⟨1, 0, 2, 7, false, true⟩ (by decide) rfl rfl
  exact absurd this (by decide)

/-- …and what happens next: the orphan keeps its address (isolation is untouched), the address gets a second stream -/
example : ((run (St.init false 2) (stolen ++ [.localDatagram 7 [9] false, .streamDatagram 1 [5] false])).writes,
           (run (St.init false 2) (stolen ++ [.localDatagram 7 [9] false, .streamDatagram 1 [5] false])).delivs)
          = ([(7, 1, [1]), (7, 2, [9])], [(1, 7, [5])]) := by decide

/-- non-vacuity: a history with three addresses, a session kill, a goroutine exit and replies, in which the theorems
speak about non-empty tables, writes and deliveries -/
def demo : List Ev :=
  [.localDatagram 1 [1] false, .localDatagram 2 [2] false, .streamDatagram 0 [8] false, .localDatagram 1 [3] false,
   .sessionClosed 0, .retExit 0, .localDatagram 1 [4] false, .localDatagram 3 [5] true, .streamDatagram 2 [9] false]

example : (run (St.init false 100) demo).writes = [(1, 0, [1]), (2, 1, [2]), (1, 0, [3]), (1, 2, [4]), (3, 3, [5])] ∧
          (run (St.init false 100) demo).delivs = [(0, 1, [8]), (2, 1, [9])] ∧
          (run (St.init false 100) demo).table = [(3, 3), (1, 2), (2, 1)] := by decide

/-- an OpenStream failure: the session handed out is already closed; the datagram is dropped, nothing enters the table -/
example : (run (St.init true 100) [.localDatagram 1 [1] true]).writes = [] ∧
          (run (St.init true 100) [.localDatagram 1 [1] true]).table = [] ∧
          (run (St.init true 100) [.localDatagram 1 [1] true]).deadSess = [0, 0] := by decide

example : ((run (St.init true 100) demo).streams.map (·.sess)) = [0, 1, 2] := by decide

end C14R

#print axioms C14R.c14r_isolation_in
#print axioms C14R.c14r_isolation_back
#print axioms C14R.c14r_table_sound
#print axioms C14R.c14r_singleplex
#print axioms C14R.c14r_table_complete_witness
