import CloakModel.Model.Connector
import CloakModel.Model.ClientConfig

/-! # C06 (connector) — what `client.MakeSession` hands over as "the session" after the handshakes

`Connector.run (init mode browser n) evs` is MakeSession's state after ANY interleaving `evs` of the attempts of its `n`
goroutines (events of a goroutine that has already finished, or that does not exist, change nothing).

* `gen_structure`, `gen_fallback`, `gen_backoff_structure` — what the extracted facts say.
* `mk_exactly_numConn` — once every goroutine has reported, exactly `NumConn` transports are in the channel and the
  session gets exactly those; `mk_conns_succeeded` each is the connection of a handshake that SUCCEEDED;
  `mk_none_closed` none of them was closed; `mk_failed_closed` every failed handshake's transport was closed
  (and no dial failure closes anything: `mk_dial_fail_no_close`).
* `mk_key_agree_full` (the obfuscator's key is the key of EVERY added connection) is **false** of MakeSession alone:
  `mk_key_agree_witness`; `mk_key_agree` proves it under `SameKey` — every successful handshake of this call was given
  the same key, which is what C15's `c15_same_session` gives for one `(UID, SessionId)`: see `SameKey` below.
* `mk_key_is_last` — the key used is the one stored last.
* `mk_fallback_*` — the chrome→firefox fall-back: only for mode "direct" and chrome, only after a failed HANDSHAKE,
  sticky, and private to the goroutine.
* `mk_no_panic` — with `NumConn ≥ 1` the `Load().([32]byte)` never meets an empty value; `mk_zero_panics` is the witness
  for `NumConn = 0`; `c20_numConn_pos` — `ProcessRawConfig` (C20's model, from its extracted terms) never yields `NumConn < 1`.
* `mk_config` — Singleplex / Unordered / MsgOnWireSizeLimit / Valve / session id of the session.
* `backoff_returned`, `backoff_fatal`, `backoff_total`, `randRead_full_*`, `randInt_range`. -/

namespace C06Connector
open Connector Gen.Connector

/-! ## 1. The extracted facts -/

/-- OBLIGATION: the structure of MakeSession the model relies on -/
theorem gen_structure :
    topOrder = ["makechan", "spawn", "wait", "load", "obfuscator", "config", "session", "add", "return"] ∧
    capIsNumConn = true ∧ spawnBoundIsNumConn = true ∧ addBoundIsNumConn = true ∧ addLoopReceivesAndAdds = true ∧
    sessionIdFromAuthInfo = true ∧ wgAddBeforeGo = true ∧
    transportConfigCopiedPerIteration = true ∧ transportFieldIsValue = true ∧ dialsRemoteAddr = true ∧
    dialFailJumpsBack = true ∧ hsFailJumpsBack = true ∧
    dialFailCloses = false ∧ hsFailCloses = true ∧ dialFailFallsBack = false ∧ hsFailFallsBack = true ∧
    okStoresSendsThenDone = true ∧ 0 < sleepDialFail ∧ 0 < sleepHsFail ∧ 1 ≤ ckClientNumConnMin := by decide

/-- OBLIGATION: both failure branches sleep 3 s (the documented retry interval) -/
theorem gen_sleeps : sleepDialFail = 3000000000 ∧ sleepHsFail = 3000000000 := by decide

/-- OBLIGATION: the fall-back condition and target, whatever way the test is written -/
theorem gen_fallback (mode : String) (b : Int) :
    (fallbackCond mode b = true ↔ (mode = "direct" ∧ b = chromeId)) ∧ fallbackBrowser b = firefoxId ∧
    chromeId ≠ firefoxId ∧ chromeId ≠ safariId ∧ firefoxId ≠ safariId := by
  refine ⟨?_, ?_, by decide, by decide, by decide⟩
  · constructor <;> intro h <;> simp_all [fallbackCond, chromeId]
  · simp [fallbackBrowser, firefoxId]

/-- OBLIGATION: where the session configuration comes from -/
theorem gen_config :
    seshConfigFields = [("MsgOnWireSizeLimit", "appDataMaxLength"), ("Obfuscator", "obfuscator"),
      ("Singleplex", "connConfig.Singleplex"), ("Unordered", "authInfo.Unordered"), ("Valve", "nil")] ∧
    appDataMaxLength = 16401 := by decide

/-- OBLIGATION: shape of `backoff`, `RandRead`, `RandInt`, the AES-GCM wrappers -/
theorem gen_backoff_structure :
    backoffShape = ["call", "retok", "table", "loop", "fatal"] ∧ backoffLoopShape = ["call", "retok", "sleep"] ∧
    backoffRetries = 10 ∧ backoffWaits.length = backoffRetries ∧ backoffTableLen = 10 ∧
    backoffWaits.foldl (· + ·) 0 = 9995000000 ∧ (∀ w ∈ backoffWaits, 0 < w) ∧
    randReadUsesBackoff = true ∧ randIntUsesBackoff = true ∧ randIntReaderIsCrypto = true ∧ randIntReturnsDraw = true ∧
    gcmSealOrder = true ∧ gcmOpenOrder = true := by decide

theorem gen_randIntBound (n : Int) : randIntBound n = n := by simp [randIntBound]

/-! ## 2. Invariants of the goroutine machine -/

theorem countDone_le (gs : List G) : countDone gs ≤ gs.length := by
  induction gs with
  | nil => simp [countDone]
  | cons x xs ih => simp only [countDone, List.length_cons]; split <;> omega

theorem allDone_count (gs : List G) (h : allDone gs = true) : countDone gs = gs.length := by
  induction gs with
  | nil => simp [countDone]
  | cons x xs ih =>
    simp only [allDone, List.all_cons, Bool.and_eq_true] at h
    simp only [countDone, List.length_cons, h.1, if_true]
    have := ih (by simpa [allDone] using h.2)
    omega

theorem countDone_set_done (gs : List G) (g : Nat) (x : G) (hx : gs[g]? = some x) (hd : x.done = false) (y : G) (hy : y.done = true) :
    countDone (gs.set g y) = countDone gs + 1 := by
  induction gs generalizing g with
  | nil => simp at hx
  | cons a as ih =>
    cases g with
    | zero =>
      simp only [List.getElem?_cons_zero, Option.some.injEq] at hx
      subst hx
      simp [countDone, hd, hy]; omega
    | succ g =>
      simp only [List.getElem?_cons_succ] at hx
      simp only [List.set_cons_succ, countDone, ih g hx]; omega

theorem countDone_set_same (gs : List G) (g : Nat) (x : G) (hx : gs[g]? = some x) (y : G) (hy : y.done = x.done) :
    countDone (gs.set g y) = countDone gs := by
  induction gs generalizing g with
  | nil => simp at hx
  | cons a as ih =>
    cases g with
    | zero =>
      simp only [List.getElem?_cons_zero, Option.some.injEq] at hx
      subst hx
      simp [countDone, hy]
    | succ g =>
      simp only [List.getElem?_cons_succ] at hx
      simp only [List.set_cons_succ, countDone, ih g hx]

/-- what stays true whatever happens -/
structure Inv (s : St) : Prop where
  count : s.ch.length = countDone s.gs
  last : s.stored = s.ch.getLast?.map (·.2)

theorem inv_init (mode : String) (b : Int) (n : Nat) : Inv (init mode b n) := by
  refine ⟨?_, rfl⟩
  simp only [init, List.length_nil]
  induction n with
  | zero => rfl
  | succ n ih => simp [List.replicate_succ, countDone]; simpa using ih

theorem step_evG (e : Ev) : (match e with | .dialFail g => g | .hsFail g _ => g | .hsOk g _ _ => g) = evG e := by
  cases e <;> rfl

theorem inv_step (s : St) (e : Ev) (h : Inv s) : Inv (step s e) := by
  unfold step
  split
  · exact h
  · rename_i x hx
    split
    · exact h
    · rename_i hd
      have hd' : x.done = false := by simpa using hd
      cases e with
      | dialFail g =>
        simp only [evG] at hx
        exact ⟨h.count.trans (countDone_set_same s.gs g x hx _ (by rfl)).symm, h.last⟩
      | hsFail g c =>
        simp only [evG] at hx
        exact ⟨h.count.trans (countDone_set_same s.gs g x hx _ (by rfl)).symm, h.last⟩
      | hsOk g c k =>
        simp only [evG] at hx
        refine ⟨?_, ?_⟩
        · simp only [List.length_append, List.length_singleton]
          rw [countDone_set_done s.gs g x hx hd' _ rfl, h.count]
        · simp

theorem inv_run (s : St) (evs : List Ev) (h : Inv s) : Inv (run s evs) := by
  induction evs generalizing s with
  | nil => exact h
  | cons e es ih => exact ih (step s e) (inv_step s e h)

theorem gs_length_step (s : St) (e : Ev) : (step s e).gs.length = s.gs.length := by
  unfold step
  split
  · rfl
  · split
    · rfl
    · cases e <;> simp

theorem gs_length_run (s : St) (evs : List Ev) : (run s evs).gs.length = s.gs.length := by
  induction evs generalizing s with
  | nil => rfl
  | cons e es ih => exact (ih (step s e)).trans (gs_length_step s e)

theorem mode_step (s : St) (e : Ev) : (step s e).mode = s.mode := by
  unfold step
  split
  · rfl
  · split
    · rfl
    · cases e <;> rfl

/-! ## 3. Exactly NumConn connections, all from successful handshakes, none closed -/

/-- **exactly NumConn**: when every goroutine has reported done, the channel holds exactly `NumConn` transports —
the adding loop neither blocks nor leaves one behind — and the session is given exactly those -/
theorem mk_exactly_numConn (mode : String) (b : Int) (n : Nat) (evs : List Ev)
    (hd : allDone (run (init mode b n) evs).gs = true) :
    (run (init mode b n) evs).ch.length = n := by
  have hi := inv_run _ evs (inv_init mode b n)
  rw [hi.count, allDone_count _ hd, gs_length_run]
  simp [init]

example : (run (init "direct" 0 2) [.hsFail 0 10, .dialFail 1, .hsOk 1 11 7, .hsOk 0 12 7]).ch.length = 2 := by decide

theorem ch_mem_step (s : St) (e : Ev) (p : Nat × Nat) (hp : p ∈ (step s e).ch) :
    p ∈ s.ch ∨ (∃ g, e = .hsOk g p.1 p.2 ∧ enabled s e = true) := by
  unfold step at hp
  split at hp
  · exact .inl hp
  · rename_i x hx
    split at hp
    · exact .inl hp
    · rename_i hd
      cases e with
      | dialFail g => exact .inl hp
      | hsFail g c => exact .inl hp
      | hsOk g c k =>
        simp only [List.mem_append, List.mem_singleton] at hp
        rcases hp with hp | hp
        · exact .inl hp
        · refine .inr ⟨g, by rw [hp], ?_⟩
          simp only [enabled, hx]; simpa using hd

/-- **every added connection is one whose handshake succeeded** (an `hsOk` event of the history) -/
theorem mk_conns_succeeded (s : St) (evs : List Ev) (p : Nat × Nat) (hp : p ∈ (run s evs).ch) :
    p ∈ s.ch ∨ ∃ g, Ev.hsOk g p.1 p.2 ∈ evs := by
  induction evs generalizing s with
  | nil => exact .inl hp
  | cons e es ih =>
    rcases ih (step s e) hp with h | ⟨g, hg⟩
    · rcases ch_mem_step s e p h with h' | ⟨g, hg, _⟩
      · exact .inl h'
      · exact .inr ⟨g, by simp [hg]⟩
    · exact .inr ⟨g, List.mem_cons_of_mem _ hg⟩

theorem closed_mem_step (s : St) (e : Ev) (c : Nat) (hc : c ∈ (step s e).closed) :
    c ∈ s.closed ∨ ∃ g, e = .hsFail g c := by
  unfold step at hc
  split at hc
  · exact .inl hc
  · split at hc
    · exact .inl hc
    · cases e with
      | dialFail g => exact .inl hc
      | hsOk g c' k => exact .inl hc
      | hsFail g c' =>
        simp only at hc
        split at hc
        · simp only [List.mem_append, List.mem_singleton] at hc
          rcases hc with hc | hc
          · exact .inl hc
          · exact .inr ⟨g, by rw [hc]⟩
        · exact .inl hc

theorem closed_from_failures (s : St) (evs : List Ev) (c : Nat) (hc : c ∈ (run s evs).closed) :
    c ∈ s.closed ∨ ∃ g, Ev.hsFail g c ∈ evs := by
  induction evs generalizing s with
  | nil => exact .inl hc
  | cons e es ih =>
    rcases ih (step s e) hc with h | ⟨g, hg⟩
    · rcases closed_mem_step s e c h with h' | ⟨g, hg⟩
      · exact .inl h'
      · exact .inr ⟨g, by simp [hg]⟩
    · exact .inr ⟨g, List.mem_cons_of_mem _ hg⟩

/-- **none of the added connections was closed** (every dial returns a connection of its own: a connection on which a
handshake succeeded is not one on which a handshake failed); in particular a dial failure closes nothing -/
theorem mk_none_closed (mode : String) (b : Int) (n : Nat) (evs : List Ev)
    (hfresh : ∀ g g' c k, Ev.hsOk g c k ∈ evs → Ev.hsFail g' c ∉ evs)
    (p : Nat × Nat) (hp : p ∈ (run (init mode b n) evs).ch) : p.1 ∉ (run (init mode b n) evs).closed := by
  intro hc
  rcases mk_conns_succeeded _ evs p hp with h | ⟨g, hg⟩
  · simp [init] at h
  · rcases closed_from_failures _ evs p.1 hc with h | ⟨g', hg'⟩
    · simp [init] at h
    · exact hfresh g g' p.1 p.2 hg hg'

example : (run (init "direct" 0 2) [.hsFail 0 10, .dialFail 1, .hsOk 1 11 7, .hsOk 0 12 7]).closed = [10] := by decide

/-- **a failed handshake's transport is closed** (one step; needs the extracted `hsFailCloses`) -/
theorem mk_failed_closed (s : St) (g c : Nat) (he : enabled s (.hsFail g c) = true) : c ∈ (step s (.hsFail g c)).closed := by
  unfold enabled at he
  unfold step
  split
  · rename_i h; simp [h] at he
  · rename_i x hx
    simp only [hx] at he
    split
    · rename_i hd; simp [hd] at he
    · simp [gen_structure.2.2.2.2.2.2.2.2.2.2.2.2.2.1]

/-- a dial failure closes nothing and never panics (`Close()` on a transport without a connection would) -/
theorem mk_dial_fail_no_close (s : St) (g : Nat) :
    (step s (.dialFail g)).closed = s.closed ∧ (step s (.dialFail g)).panicked = s.panicked := by
  unfold step
  split
  · exact ⟨rfl, rfl⟩
  · split
    · exact ⟨rfl, rfl⟩
    · simp [gen_structure.2.2.2.2.2.2.2.2.2.2.2.2.1]

/-! ## 4. The key -/

/-- **the key used is the one stored last**: the key of the last transport sent -/
theorem mk_key_is_last (mode : String) (b : Int) (n : Nat) (evs : List Ev) :
    (run (init mode b n) evs).stored = (run (init mode b n) evs).ch.getLast?.map (·.2) :=
  (inv_run _ evs (inv_init mode b n)).last

/-- the hypothesis MakeSession's comment relies on ("sessionKey given by each connection should be identical"): every
successful handshake of THIS call was answered with the same key.  Every handshake of one call carries the same
`authInfo.UID` and `authInfo.SessionId`; the server answers the first with the key of the session it creates and every
later one — a join — with the key of that same session, as long as the session is not removed in between: that is
`C15.c15_same_session` (`(getSession … rid sid k2 now2).2 = .joined K`, Props/C15.lean) followed by C06's `c06_reply`
(the client decrypts exactly the key the server put into the reply). -/
def SameKey (evs : List Ev) (K : Nat) : Prop := ∀ g c k, Ev.hsOk g c k ∈ evs → k = K

/-- full strength, no hypothesis on the server: the obfuscator's key is the key of every added connection -/
def mk_key_agree_full : Prop :=
  ∀ (cfg : Cfg) (mode : String) (b : Int) (evs : List Ev) (sesh : Sesh),
    assemble cfg (run (init mode b cfg.numConn) evs) = .ok sesh →
    ∀ p ∈ (run (init mode b cfg.numConn) evs).ch, p.2 = sesh.key

theorem assemble_ok_key (cfg : Cfg) (s : St) (sesh : Sesh) (h : assemble cfg s = .ok sesh) :
    s.stored = some sesh.key ∧ allDone s.gs = true ∧ cfg.numConn ≤ s.ch.length ∧
    sesh.conns = (s.ch.take cfg.numConn).map (·.1) := by
  unfold assemble at h
  split at h
  · cases h
  · rename_i hd
    split at h
    · cases h
    · rename_i k hk
      split at h
      · cases h
      · rename_i hl
        split at h
        · cases h
          exact ⟨hk, by simpa using hd, by omega, rfl⟩
        · cases h

/-- **key agreement, under `SameKey`** -/
theorem mk_key_agree (cfg : Cfg) (mode : String) (b : Int) (evs : List Ev) (K : Nat) (hs : SameKey evs K) (sesh : Sesh)
    (h : assemble cfg (run (init mode b cfg.numConn) evs) = .ok sesh) (hn : 1 ≤ cfg.numConn) :
    sesh.key = K ∧ ∀ p ∈ (run (init mode b cfg.numConn) evs).ch, p.2 = sesh.key := by
  have hall : ∀ p ∈ (run (init mode b cfg.numConn) evs).ch, p.2 = K := by
    intro p hp
    rcases mk_conns_succeeded _ evs p hp with h' | ⟨g, hg⟩
    · simp [init] at h'
    · exact hs g p.1 p.2 hg
  obtain ⟨hst, _, hlen, _⟩ := assemble_ok_key cfg _ sesh h
  have hl := mk_key_is_last mode b cfg.numConn evs
  rw [hst] at hl
  have hk : sesh.key = K := by
    cases hgl : (run (init mode b cfg.numConn) evs).ch.getLast? with
    | none => rw [hgl] at hl; simp at hl
    | some q =>
      rw [hgl] at hl
      simp only [Option.map_some, Option.some.injEq] at hl
      rw [hl]
      exact hall q (List.mem_of_getLast? hgl)
  exact ⟨hk, fun p hp => (hall p hp).trans hk.symm⟩

example : SameKey [.hsFail 0 10, .dialFail 1, .hsOk 1 11 7, .hsOk 0 12 7] 7 ∧
    (∃ s, assemble ⟨2, false, false, 5⟩ (run (init "direct" 0 2) [.hsFail 0 10, .dialFail 1, .hsOk 1 11 7, .hsOk 0 12 7]) = .ok s) := by
  refine ⟨?_, ?_⟩
  · intro g c k h
    simp only [List.mem_cons, List.mem_nil_iff, or_false, reduceCtorEq, false_or, Ev.hsOk.injEq] at h
    rcases h with h | h <;> exact h.2.2
  · exact ⟨⟨5, 7, [11, 12], false, false, 16401, true⟩, by decide⟩

/-- **witness**: two goroutines given different keys (a server that does not keep one session per (UID, SessionId)):
the session is assembled all the same, its key is the later one, and the first connection's key differs -/
theorem mk_key_agree_witness : ¬ mk_key_agree_full := by
  intro h
  have := h ⟨2, false, false, 5⟩ "direct" 1 [.hsOk 0 10 7, .hsOk 1 11 8] ⟨5, 8, [10, 11], false, false, 16401, true⟩ (by decide) (10, 7) (by decide)
  revert this
  decide

/-! ## 5. The chrome → firefox fall-back -/

theorem afterFail_spec (has : Bool) (mode : String) (b : Int) :
    afterFail has mode b = if has = true ∧ mode = "direct" ∧ b = chromeId then firefoxId else b := by
  unfold afterFail
  have := gen_fallback mode b
  by_cases hh : has = true
  · by_cases hc : fallbackCond mode b = true
    · have hm := this.1.1 hc
      rw [if_pos (by simp [hh, hc]), if_pos ⟨hh, hm⟩]; exact this.2.1
    · have hn : ¬ (mode = "direct" ∧ b = chromeId) := fun h => hc (this.1.2 h)
      simp [hh, hc, hn]
  · simp [hh]

/-- the browser goroutine `g` would use for its next attempt -/
def browserOf (s : St) (g : Nat) : Option Int := (s.gs[g]?).map (·.browser)

/-- **a failed handshake of an enabled goroutine**: chrome becomes firefox in mode "direct", anything else stays -/
theorem mk_fallback_hsFail (s : St) (g c : Nat) (x : G) (hx : s.gs[g]? = some x) (hd : x.done = false) :
    browserOf (step s (.hsFail g c)) g = some (if s.mode = "direct" ∧ x.browser = chromeId then firefoxId else x.browser) := by
  have hlt : g < s.gs.length := by
    rcases Nat.lt_or_ge g s.gs.length with h | h
    · exact h
    · simp [List.getElem?_eq_none h] at hx
  have hxe : s.gs[g] = x := by
    have := List.getElem?_eq_getElem hlt
    rw [this] at hx; exact Option.some.inj hx
  unfold step browserOf
  simp only [evG, hx, hd]
  simp [afterFail_spec, gen_structure.2.2.2.2.2.2.2.2.2.2.2.2.2.2.2.1, hlt, hxe]

/-- **a failed DIAL never changes the browser** -/
theorem mk_fallback_not_on_dialFail (s : St) (g g' : Nat) : browserOf (step s (.dialFail g)) g' = browserOf s g' := by
  unfold step browserOf
  split
  · rfl
  · rename_i x hx
    split
    · rfl
    · simp only [evG] at hx
      simp only [afterFail_spec, gen_structure.2.2.2.2.2.2.2.2.2.2.2.2.2.2.1]
      by_cases hgg : g = g'
      · subst hgg
        have hlt : g < s.gs.length := by
          rcases Nat.lt_or_ge g s.gs.length with h | h
          · exact h
          · simp [List.getElem?_eq_none h] at hx
        have hxe : s.gs[g] = x := by
          have := List.getElem?_eq_getElem hlt
          rw [this] at hx; exact Option.some.inj hx
        simp [hlt, hxe]
      · simp [List.getElem?_set_ne hgg]

/-- **the fall-back is private to the goroutine**: an event of goroutine `g` leaves every other goroutine's browser alone -/
theorem mk_fallback_private (s : St) (e : Ev) (g' : Nat) (hne : evG e ≠ g') : browserOf (step s e) g' = browserOf s g' := by
  unfold step browserOf
  split
  · rfl
  · split
    · rfl
    · cases e <;> simp only [evG] at hne <;> simp [List.getElem?_set_ne hne]

/-- **sticky / only chrome in "direct"**: one step moves a goroutine's browser only from chrome to firefox, and only in mode "direct" -/
theorem mk_fallback_step (s : St) (e : Ev) (g : Nat) (b : Int) (hb : browserOf s g = some b) :
    browserOf (step s e) g = some b ∨ (s.mode = "direct" ∧ b = chromeId ∧ (∃ c, e = .hsFail g c) ∧ browserOf (step s e) g = some firefoxId) := by
  by_cases hg : evG e = g
  · unfold browserOf at hb
    cases hx : s.gs[g]? with
    | none => simp [hx] at hb
    | some x =>
      simp only [hx, Option.map_some, Option.some.injEq] at hb
      by_cases hd : x.done = true
      · left
        unfold step browserOf
        simp [hg, hx, hd, hb]
      · have hd' : x.done = false := by simpa using hd
        cases e with
        | dialFail g0 =>
          simp only [evG] at hg; subst hg
          left; rw [mk_fallback_not_on_dialFail]; simp [browserOf, hx, hb]
        | hsFail g0 c =>
          simp only [evG] at hg; subst hg
          rw [mk_fallback_hsFail s g0 c x hx hd']
          by_cases hc : s.mode = "direct" ∧ x.browser = chromeId
          · right
            exact ⟨hc.1, hb ▸ hc.2, ⟨c, rfl⟩, by simp [hc]⟩
          · left; rw [if_neg hc, hb]
        | hsOk g0 c k =>
          simp only [evG] at hg; subst hg
          left
          have hlt : g0 < s.gs.length := by
            rcases Nat.lt_or_ge g0 s.gs.length with h | h
            · exact h
            · simp [List.getElem?_eq_none h] at hx
          unfold step browserOf
          simp only [evG, hx, hd']
          simp [hlt, hb]
  · left; rw [mk_fallback_private s e g hg]; exact hb

/-- **over a whole history**: a goroutine that started with browser `b` ends with `b`, or — only if the mode is "direct",
`b` is chrome and one of ITS handshakes failed — with firefox -/
theorem mk_fallback_run (s : St) (evs : List Ev) (g : Nat) (b : Int) (hb : browserOf s g = some b) :
    browserOf (run s evs) g = some b ∨
    (s.mode = "direct" ∧ b = chromeId ∧ (∃ c, Ev.hsFail g c ∈ evs) ∧ browserOf (run s evs) g = some firefoxId) := by
  induction evs generalizing s b with
  | nil => exact .inl hb
  | cons e es ih =>
    rcases mk_fallback_step s e g b hb with h | ⟨hm, hc, ⟨c, hec⟩, hf⟩
    · rcases ih (step s e) b h with h' | ⟨hm, hc, ⟨c, hmem⟩, hf⟩
      · exact .inl h'
      · exact .inr ⟨by rw [← hm, mode_step], hc, ⟨c, List.mem_cons_of_mem _ hmem⟩, hf⟩
    · rcases ih (step s e) firefoxId hf with h' | ⟨_, hc', _, _⟩
      · exact .inr ⟨hm, hc, ⟨c, by simp [hec]⟩, h'⟩
      · exact absurd hc'.symm (gen_fallback "" 0).2.2.1

example : browserOf (run (init "direct" 0 3) [.dialFail 0, .hsFail 1 10, .hsOk 2 11 7]) 0 = some 0 ∧
          browserOf (run (init "direct" 0 3) [.dialFail 0, .hsFail 1 10, .hsOk 2 11 7]) 1 = some 1 ∧
          browserOf (run (init "cdn" 0 3) [.dialFail 0, .hsFail 1 10, .hsOk 2 11 7]) 1 = some 0 ∧
          browserOf (run (init "direct" 2 3) [.dialFail 0, .hsFail 1 10, .hsOk 2 11 7]) 1 = some 2 := by decide

/-! ## 6. `NumConn = 0` -/

theorem countDone_pos_of_allDone (gs : List G) (h : allDone gs = true) (hn : 1 ≤ gs.length) : 1 ≤ countDone gs := by
  rw [allDone_count gs h]; exact hn

/-- **no empty `Load()`**: with `NumConn ≥ 1`, whatever the history, the assembly never panics -/
theorem mk_no_panic (cfg : Cfg) (mode : String) (b : Int) (evs : List Ev) (hn : 1 ≤ cfg.numConn) :
    assemble cfg (run (init mode b cfg.numConn) evs) ≠ .panic := by
  intro h
  unfold assemble at h
  split at h
  · cases h
  · rename_i hd
    have hd' : allDone (run (init mode b cfg.numConn) evs).gs = true := by simpa using hd
    have hlen := mk_exactly_numConn mode b cfg.numConn evs hd'
    have hl := mk_key_is_last mode b cfg.numConn evs
    split at h
    · rename_i hnone
      rw [hnone] at hl
      cases hc : (run (init mode b cfg.numConn) evs).ch with
      | nil =>
        have h0 : 0 = cfg.numConn := by rw [hc] at hlen; exact hlen
        omega
      | cons p ps => rw [hc] at hl; simp [List.getLast?_cons] at hl
    · split at h
      · cases h
      · split at h <;> cases h

/-- **witness**: a `RemoteConnConfig` with `NumConn = 0` makes MakeSession panic (no goroutine runs, `wg.Wait()` returns
at once, the type assertion meets a nil interface) -/
theorem mk_zero_panics (sp un : Bool) (sid : Nat) (mode : String) (b : Int) :
    assemble ⟨0, sp, un, sid⟩ (run (init mode b 0) []) = .panic := by
  simp [assemble, run, init, allDone]

/-- **the precondition holds for every configuration `ProcessRawConfig` accepts** (C20's model, built from the extracted
`raw.NumConn <= 0` test and the two assignments): `NumConn ≥ 1`, and `cmd/ck-client` only ever overwrites it with 1 -/
theorem c20_numConn_pos (lower : String → String) (raw : CC.RawConfig) (c : CC.Cfg)
    (h : CC.processRaw lower raw = .ok c) : 1 ≤ c.numConn ∧ 1 ≤ ckClientNumConnMin := by
  refine ⟨?_, by decide⟩
  have hn : 1 ≤ (CC.numConnOf raw).1 := by
    unfold CC.numConnOf
    split
    · simp [Gen.ClientCfg.numConnThen]
    · rename_i hc
      simp only [Gen.ClientCfg.singleplexCond, decide_eq_true_eq] at hc
      simp only [Gen.ClientCfg.numConnElse]; omega
  unfold CC.processRaw CC.processRawK at h
  repeat' split at h
  all_goals first | cases h | skip
  all_goals first | exact hn | skip

/-! ## 7. The session's configuration -/

/-- **Singleplex, Unordered, MsgOnWireSizeLimit = appDataMaxLength, Valve nil, the session id, the connections** -/
theorem mk_config (cfg : Cfg) (s : St) (sesh : Sesh) (h : assemble cfg s = .ok sesh) :
    sesh.singleplex = cfg.singleplex ∧ sesh.unordered = cfg.unordered ∧ sesh.msgOnWireSizeLimit = 16401 ∧
    sesh.valveNil = true ∧ sesh.id = cfg.sessionId ∧ sesh.conns.length = cfg.numConn := by
  have hl := (assemble_ok_key cfg s sesh h).2.2.1
  unfold assemble at h
  split at h
  · cases h
  · split at h
    · cases h
    · split at h
      · cases h
      · have h1 : boolField cfg "Singleplex" = some cfg.singleplex := by
          simp [boolField, lookupField, gen_config.1]
        have h2 : boolField cfg "Unordered" = some cfg.unordered := by
          simp [boolField, lookupField, gen_config.1]
        rw [h1, h2] at h
        simp only [Out.ok.injEq] at h
        subst h
        simp [lookupField, gen_config.1, gen_config.2, List.length_take]
        omega

/-! ## 8. `backoff`, `RandRead`, `RandInt` -/

theorem retryLoop_spec (src : Nat → Bool) (ws : List Int) (calls : Nat) (slept : Int) :
    (∃ j, j < ws.length ∧ src (calls + j) = true ∧ (∀ i, i < j → src (calls + i) = false) ∧
        retryLoop src ws calls slept = .returned (calls + j + 1) (slept + (ws.take j).foldl (· + ·) 0)) ∨
    ((∀ i, i < ws.length → src (calls + i) = false) ∧
        retryLoop src ws calls slept = .fatal (calls + ws.length) (slept + ws.foldl (· + ·) 0)) := by
  induction ws generalizing calls slept with
  | nil => right; simp [retryLoop]
  | cons w ws ih =>
    unfold retryLoop
    by_cases h : src calls = true
    · left
      exact ⟨0, by simp, by simpa using h, by intro i hi; omega, by simp [h]⟩
    · have hf : src calls = false := by simpa using h
      rcases ih (calls + 1) (slept + w) with ⟨j, hj, hs, hall, hr⟩ | ⟨hall, hr⟩
      · left
        refine ⟨j + 1, by simp; omega, by rw [← hs]; congr 1; omega, ?_, ?_⟩
        · intro i hi
          cases i with
          | zero => simpa using hf
          | succ i => have := hall i (by omega); rw [← this]; congr 1; omega
        · simp only [hf, Bool.false_eq_true, if_false, hr, List.take_succ_cons, List.foldl_cons]
          have e1 : ∀ (l : List Int) (a : Int), l.foldl (· + ·) a = a + l.foldl (· + ·) 0 := by
            intro l; induction l with
            | nil => intro a; simp
            | cons y ys ih2 => intro a; simp only [List.foldl_cons]; rw [ih2 (a + y), ih2 (0 + y)]; omega
          rw [e1 _ (0 + w)]
          congr 1 <;> omega
      · right
        refine ⟨?_, ?_⟩
        · intro i hi
          cases i with
          | zero => simpa using hf
          | succ i => have := hall i (by simp at hi; omega); rw [← this]; congr 1; omega
        · simp only [hf, Bool.false_eq_true, if_false, hr, List.length_cons, List.foldl_cons]
          have e1 : ∀ (l : List Int) (a : Int), l.foldl (· + ·) a = a + l.foldl (· + ·) 0 := by
            intro l; induction l with
            | nil => intro a; simp
            | cons y ys ih2 => intro a; simp only [List.foldl_cons]; rw [ih2 (a + y), ih2 (0 + y)]; omega
          rw [e1 _ (0 + w)]
          congr 1 <;> omega

theorem take_waits : backoffWaits.take backoffRetries = backoffWaits := by decide

/-- **`backoff` returns only after a call that succeeded** — the FIRST one that did, among at most 11 calls -/
theorem backoff_returned (src : Nat → Bool) (c : Nat) (sl : Int) (h : backoff src = .returned c sl) :
    1 ≤ c ∧ c ≤ 11 ∧ src (c - 1) = true ∧ ∀ i, i < c - 1 → src i = false := by
  unfold backoff at h
  split at h
  · rename_i h0
    cases h
    exact ⟨by omega, by omega, h0, by intro i hi; omega⟩
  · rename_i h0
    rw [take_waits] at h
    rcases retryLoop_spec src backoffWaits 1 0 with ⟨j, hj, hs, hall, hr⟩ | ⟨_, hr⟩
    · rw [hr] at h
      cases h
      have hlen : backoffWaits.length = 10 := by decide
      refine ⟨by omega, by omega, by simpa using hs, ?_⟩
      intro i hi
      cases i with
      | zero => simpa using h0
      | succ i => have := hall i (by omega); rw [← this]; congr 1; omega
    · rw [hr] at h; cases h

/-- **after the last retry**: 11 failed calls, 9.995 s slept in total (the last 5 s AFTER the last failed call), then
`log.Fatal` — the process exits; `backoff` never returns without a success -/
theorem backoff_fatal (src : Nat → Bool) (c : Nat) (sl : Int) (h : backoff src = .fatal c sl) :
    c = 11 ∧ sl = 9995000000 ∧ ∀ i, i < 11 → src i = false := by
  unfold backoff at h
  split at h
  · cases h
  · rename_i h0
    rw [take_waits] at h
    rcases retryLoop_spec src backoffWaits 1 0 with ⟨j, _, _, _, hr⟩ | ⟨hall, hr⟩
    · rw [hr] at h; cases h
    · rw [hr] at h
      cases h
      have hlen : backoffWaits.length = 10 := by decide
      refine ⟨by omega, by rw [gen_backoff_structure.2.2.2.2.2.1]; rfl, ?_⟩
      intro i hi
      cases i with
      | zero => simpa using h0
      | succ i => have := hall i (by omega); rw [← this]; congr 1; omega

theorem backoff_total (src : Nat → Bool) (i : Nat) (hi : i < 11) (hs : src i = true) : ∃ c sl, backoff src = .returned c sl := by
  cases hb : backoff src with
  | returned c sl => exact ⟨c, sl, rfl⟩
  | fatal c sl => have := (backoff_fatal src c sl hb).2.2 i hi; rw [hs] at this; cases this

example : backoff (fun i => i == 3) = .returned 4 15000000 := by decide
example : backoff (fun _ => false) = .fatal 11 9995000000 := by decide

/-- full strength for `RandRead`: it returns only after a read that FILLED the buffer -/
def randRead_full_full : Prop :=
  ∀ (len : Nat) (src : Nat → Nat × Bool) (c : Nat) (sl : Int), randRead src = .returned c sl → (src (c - 1)).1 = len

/-- false for an arbitrary `io.Reader` (the byte count is discarded: `_, err := randSource.Read(buf)`): a reader may
return fewer bytes with a nil error -/
theorem randRead_full_witness : ¬ randRead_full_full := by
  intro h
  have := h 32 (fun _ => (0, true)) 1 0 (by decide)
  simp at this

/-- holds for sources that fill the buffer whenever they report no error (`crypto/rand.Reader` does) -/
theorem randRead_full_partial (len : Nat) (src : Nat → Nat × Bool) (hsrc : ∀ i, (src i).2 = true → (src i).1 = len)
    (c : Nat) (sl : Int) (h : randRead src = .returned c sl) : (src (c - 1)).1 = len ∧ (src (c - 1)).2 = true :=
  ⟨hsrc _ (backoff_returned _ c sl h).2.2.1, (backoff_returned _ c sl h).2.2.1⟩

/-- **`RandInt(n)` is in `[0, n)`** (the bound handed to `crypto/rand.Int` is the extracted `int64(n)`) -/
theorem randInt_range (n : Int) (d : Nat) (r : Int) (h : randInt n d = some r) : 0 ≤ r ∧ r < n := by
  unfold randInt at h
  rw [gen_randIntBound] at h
  split at h
  · cases h
  · simp only [Option.some.injEq] at h
    subst h
    exact ⟨Int.emod_nonneg _ (by omega), Int.emod_lt_of_pos _ (by omega)⟩

example : randInt 10 1234 = some 4 ∧ randInt 0 5 = none := by decide

end C06Connector

#print axioms C06Connector.mk_exactly_numConn
#print axioms C06Connector.mk_key_agree
#print axioms C06Connector.mk_fallback_run
#print axioms C06Connector.c20_numConn_pos
#print axioms C06Connector.backoff_returned
