import CloakModel.Props.C19

/-! # C19 — the bucket's `int64` arithmetic is the model's unbounded arithmetic (for the rates `MakeValve` builds)

The bucket model `TB.*` computes in `Int`; `juju/ratelimit` computes in `int64`. The two agree exactly as long as
every intermediate value is in `int64` range, and for the refill of `adjustavailableTokens`
(`availableTokens += (tick - lastTick) * quantum`) that is NOT automatic: the product is about
`rate × seconds since the bucket was last looked at`. With a configured rate of 10¹⁵ B/s ("no limit") it passes
2⁶³ after a few idle hours, with a rate near `MaxInt64` the sum wraps at the first refill, the balance turns
hugely negative and the next `Wait` holds the user for up to hours — the red team's huge-rate finding
(`c19_refill_overflow_witness`, `c19_refill_sum_overflow_witness`; ./check C19, scenario c19huge.go).

Since /repo's fix `MakeValve` replaces each rate by `min(rate, maxValveRate)` (`Gen.Valve.valveRateCap`, read from
the source), and `c19_refill_fits` shows: for every bucket so made — capacity ≤ the cap, the constructor's promise
`quantum·10⁹/fillInterval ≤ 1.01·rate` (checked for every rate the harness builds: `rateOK`) — every intermediate
value of the refill is in `int64` range for 2⁵⁷ ns (four and a half years) after the bucket was made, so there the
`int64` computation IS the `Int` computation of the model.

`c19_wait_fits` does the same for the wait computation (`endTick * fillInterval`), as long as the wait is below 2⁶¹ ns.
Not covered (stated, not proved): waits beyond that (a debt of 2³¹ bytes at 1 B/s is a 68-year wait); buckets older
than 2⁵⁷ ns; `availableTokens - count` for a balance below `-2⁶²`. -/

namespace C19

/-- the value is representable as a Go `int64` -/
def fits (x : Int) : Prop := -2^63 ≤ x ∧ x < 2^63
instance (x : Int) : Decidable (fits x) := by unfold fits; infer_instance

/-- two's-complement result of an `int64` operation whose mathematical result is `x` -/
def wrap (x : Int) : Int := (x + 2^63) % 2^64 - 2^63

theorem wrap_of_fits (x : Int) (h : fits x) : wrap x = x := by
  unfold fits at h; unfold wrap; omega

/-- the source clamps both rates to one positive constant of at most 2³⁴ before the buckets are made -/
theorem gen_rate_cap : 0 < Gen.Valve.valveRateCap ∧ Gen.Valve.valveRateCap ≤ 2^34 := by decide

theorem tick_q_bound (cap q fi now tick : Int) (hcap0 : 0 < cap) (hcap : cap ≤ 2^34)
    (hrate : q * 100000000000 ≤ 101 * cap * fi) (htick0 : 0 ≤ tick) (htick : tick * fi ≤ now) (hnow0 : 0 ≤ now)
    (hnow : now ≤ 2^57) : tick * q ≤ 2^62 := by
  have h1 : tick * (q * 100000000000) ≤ tick * (101 * cap * fi) := Int.mul_le_mul_of_nonneg_left hrate htick0
  have h2 : tick * (101 * cap * fi) = (101 * cap) * (tick * fi) := by ac_rfl
  have h3 : (101 * cap) * (tick * fi) ≤ (101 * cap) * now := Int.mul_le_mul_of_nonneg_left htick (by omega)
  have h4 : (101 * cap) * now ≤ (101 * 2^34) * now := Int.mul_le_mul_of_nonneg_right (by omega) hnow0
  have h5 : (101 * 2^34 : Int) * now ≤ (101 * 2^34) * 2^57 := Int.mul_le_mul_of_nonneg_left hnow (by decide)
  have h6 : tick * (q * 100000000000) = (tick * q) * 100000000000 := by ac_rfl
  rw [h6] at h1
  rw [h2] at h1
  generalize tick * q = x at h1 ⊢
  have : x * 100000000000 ≤ (101 * 2^34 : Int) * 2^57 := Int.le_trans h1 (Int.le_trans h3 (Int.le_trans h4 h5))
  omega

/-- **C19 (exactness of the refill).** For a bucket made by the repaired `MakeValve` (capacity `cap` at most the cap
read from the source, real rate at most 1 % above it), looked at `now ≤ 2⁵⁷` ns after it was made, with a balance
between `-2⁶²` and the capacity and a last tick not in the future: the difference of ticks, the product with the
quantum and the new balance are all `int64` values — Go's computation does not wrap and equals the model's. -/
theorem c19_refill_fits (cap q fi now : Int) (b : TB.B) (hq : 0 < q) (hfi : 0 < fi) (hcap0 : 0 < cap)
    (hcap : cap ≤ Gen.Valve.valveRateCap) (hrate : q * 100000000000 ≤ 101 * cap * fi)
    (hnow0 : 0 ≤ now) (hnow : now ≤ 2^57) (hlast0 : 0 ≤ b.last) (hlast : b.last ≤ Gen.Valve.tbCurrentTick now fi)
    (hlo : -2^62 ≤ b.avail) (hhi : b.avail ≤ cap) :
    let tick := Gen.Valve.tbCurrentTick now fi
    fits tick ∧ fits (tick - b.last) ∧ fits (Gen.Valve.tbRefillAdd tick b.last q) ∧
    fits (b.avail + Gen.Valve.tbRefillAdd tick b.last q) ∧
    wrap (b.avail + wrap (wrap (tick - b.last) * q)) = b.avail + Gen.Valve.tbRefillAdd tick b.last q := by
  intro tick
  have htk : tick = now / fi := gen_currentTick now fi hnow0
  have htick0 : 0 ≤ tick := by rw [htk]; exact Int.ediv_nonneg hnow0 (Int.le_of_lt hfi)
  have htfi : tick * fi ≤ now := by rw [htk]; exact Int.ediv_mul_le now (Int.ne_of_gt hfi)
  have hcap34 : cap ≤ 2^34 := Int.le_trans hcap gen_rate_cap.2
  have hB := tick_q_bound cap q fi now tick hcap0 hcap34 hrate htick0 htfi hnow0 hnow
  have hlast' : b.last ≤ tick := hlast
  have hd0 : 0 ≤ tick - b.last := by omega
  have hdle : (tick - b.last) * q ≤ tick * q := Int.mul_le_mul_of_nonneg_right (by omega) (Int.le_of_lt hq)
  have hdq0 : 0 ≤ (tick - b.last) * q := Int.mul_nonneg hd0 (Int.le_of_lt hq)
  have hticklt : tick ≤ 2^57 := by
    have : tick * 1 ≤ tick * fi := Int.mul_le_mul_of_nonneg_left (by omega) htick0
    omega
  have hr : Gen.Valve.tbRefillAdd tick b.last q = (tick - b.last) * q := gen_refill _ _ _
  have f1 : fits tick := by unfold fits; omega
  have f2 : fits (tick - b.last) := by unfold fits; omega
  have f3 : fits ((tick - b.last) * q) := by unfold fits; omega
  have f4 : fits (b.avail + (tick - b.last) * q) := by unfold fits; omega
  refine ⟨f1, f2, by rw [hr]; exact f3, by rw [hr]; exact f4, ?_⟩
  rw [hr, wrap_of_fits _ f2, wrap_of_fits _ f3, wrap_of_fits _ f4]

/-- **C19 (exactness of the wait computation).** A caller left with the negative balance `a` (its debt is `-a`
tokens) is told to wait until tick `tick + ⌈-a/q⌉`, i.e. `endTick * fillInterval` ns after the bucket was made. As long as
`debt × fillInterval ≤ 2⁶¹` (for a quantum of 1 that product IS the wait in ns: 73 years), `now ≤ 2⁵⁷`, and the quantum
is below the constructor's own limit `2⁵⁰`, every intermediate value — `-a + q - 1`, the end tick, the end time, the wait —
is an `int64` and non-negative where Go's arithmetic assumes so: the wait Go computes is the model's. -/
theorem c19_wait_fits (q fi now a : Int) (hq : 0 < q) (hq50 : q ≤ 2^50) (hfi : 0 < fi)
    (hnow0 : 0 ≤ now) (hnow : now ≤ 2^57) (ha : a < 0) (hdebt : (-a) * fi ≤ 2^61) :
    let tick := Gen.Valve.tbCurrentTick now fi
    let endTick := Gen.Valve.tbEndTick tick a q
    fits (-a + q - 1) ∧ fits endTick ∧ fits (Gen.Valve.tbEndTimeSinceStart endTick fi) ∧
    fits (Gen.Valve.tbEndTimeSinceStart endTick fi - now) ∧ tick ≤ endTick := by
  intro tick endTick
  have htk : tick = now / fi := gen_currentTick now fi hnow0
  have htick0 : 0 ≤ tick := by rw [htk]; exact Int.ediv_nonneg hnow0 (Int.le_of_lt hfi)
  have htfi : tick * fi ≤ now := by rw [htk]; exact Int.ediv_mul_le now (Int.ne_of_gt hfi)
  have hticklt : tick ≤ 2^57 := by
    have : tick * 1 ≤ tick * fi := Int.mul_le_mul_of_nonneg_left (by omega) htick0
    omega
  have hna : 0 < -a := by omega
  -- the debt itself is at most 2^61 (fi ≥ 1)
  have hdebt1 : -a ≤ 2^61 := by
    have : (-a) * 1 ≤ (-a) * fi := Int.mul_le_mul_of_nonneg_left (by omega) (Int.le_of_lt hna)
    omega
  have he : endTick = tick + TBS.ceilDiv (-a) q := gen_endTick tick a q ha hq
  -- 0 < ⌈-a/q⌉ ≤ -a
  have hc0 : 0 ≤ TBS.ceilDiv (-a) q := by
    unfold TBS.ceilDiv; exact Int.ediv_nonneg (by omega) (Int.le_of_lt hq)
  have hcle : TBS.ceilDiv (-a) q ≤ -a := by
    unfold TBS.ceilDiv
    have h1 : (-a + q - 1) / q * q ≤ -a + q - 1 := Int.ediv_mul_le _ (Int.ne_of_gt hq)
    have h2 : (-a + q - 1) / q - 1 < (-a + q - 1) / q := by omega
    -- x = (-a+q-1)/q satisfies x*q ≤ -a+q-1; if x > -a then x*q ≥ (-a+1)*q ≥ -a+q  (q ≥ 1, -a ≥ 1): contradiction
    by_cases hx : (-a + q - 1) / q ≤ -a
    · exact hx
    · exfalso
      have hx' : -a + 1 ≤ (-a + q - 1) / q := by omega
      have h3 : (-a + 1) * q ≤ (-a + q - 1) / q * q := Int.mul_le_mul_of_nonneg_right hx' (Int.le_of_lt hq)
      have h4 : (-a + 1) * q = (-a) * q + q := by rw [Int.add_mul, Int.one_mul]
      have h5 : (-a) * 1 ≤ (-a) * q := Int.mul_le_mul_of_nonneg_left (by omega) (Int.le_of_lt hna)
      omega
  have hcfi : TBS.ceilDiv (-a) q * fi ≤ (-a) * fi := Int.mul_le_mul_of_nonneg_right hcle (Int.le_of_lt hfi)
  have hcfi0 : 0 ≤ TBS.ceilDiv (-a) q * fi := Int.mul_nonneg hc0 (Int.le_of_lt hfi)
  have het : Gen.Valve.tbEndTimeSinceStart endTick fi = tick * fi + TBS.ceilDiv (-a) q * fi := by
    rw [gen_endTime, he, Int.add_mul]
  have htfi0 : 0 ≤ tick * fi := Int.mul_nonneg htick0 (Int.le_of_lt hfi)
  refine ⟨by unfold fits; omega, by unfold fits; omega, by rw [het]; unfold fits; omega, by rw [het]; unfold fits; omega, by omega⟩

/-- what `MakeValve` built for 10¹⁵ B/s before the fix (quantum 10017324, fillInterval 10 ns — read from the real
bucket by the harness): one read, three idle hours, and the product of the refill is beyond `int64` -/
theorem c19_refill_overflow_witness :
    let q : Int := 10017324; let fi : Int := 10
    let last := Gen.Valve.tbCurrentTick 2500000000 fi
    let tick := Gen.Valve.tbCurrentTick (2500000000 + 3 * 3600 * 1000000000) fi
    ¬ fits (Gen.Valve.tbRefillAdd tick last q) ∧ wrap (Gen.Valve.tbRefillAdd tick last q) < 0 := by
  decide

/-- rate `MaxInt64` before the fix (capacity 2⁶³-1): after the first record the balance is 16 KiB below the capacity, and
the next refill, one millisecond later, already wraps the SUM -/
theorem c19_refill_sum_overflow_witness :
    let cap : Int := 2^63 - 1; let q : Int := 9223372037; let fi : Int := 1
    let avail := cap - 16384
    ¬ fits (avail + Gen.Valve.tbRefillAdd (Gen.Valve.tbCurrentTick 2000000 fi) (Gen.Valve.tbCurrentTick 1000000 fi) q) := by
  decide

/-- non-vacuity: the bucket the repaired `MakeValve` builds for any rate ≥ 2³⁴ (quantum 86, fillInterval 5 ns:
17.2·10⁹ B/s, within 1 % of 2³⁴; `C19.search`), one year after it was made, meets the hypotheses of `c19_refill_fits` -/
example : let cap : Int := 2^34; let q : Int := 86; let fi : Int := 5; let now : Int := 365 * 86400 * 1000000000
    0 < q ∧ 0 < fi ∧ 0 < cap ∧ cap ≤ Gen.Valve.valveRateCap ∧ q * 100000000000 ≤ 101 * cap * fi ∧ 0 ≤ now ∧ now ≤ 2^57 := by
  decide

end C19
