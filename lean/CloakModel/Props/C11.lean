import CloakModel.Model.Codec
import CloakModel.Lemmas.CodecCore

/-! # C11 — Forged, foreign or modified frames are rejected; garbage never breaks a session

Same model as C04 (`Model/Codec.lean`, parametric in `Gen.Codec`).  Results:

* `c11_total` (full): `deobfuscate` never reaches a run-time panic, on any byte string, for all four methods.
* `c11_auth_full` (the property as stated, kept visible) is **false** of the faithful model:
  `c11_witness : ¬ c11_auth_full`, and `c11_witness_general` shows the forgery works against *every* lawful
  cipher and every sent frame — header bytes 12 (closing flag) and 13 (extra length) are masked with a
  malleable stream cipher and are not bound into the AEAD tag, because the AEAD nonce is `header[:12]` and the
  additional data is `nil` (both are extracted call-site facts).  This is the open finding of the pinned tree.
* `c11_auth_partial` (proved under the integrity idealisation `INT`): an accepted message coincides with a
  message that was really sent everywhere except possibly at bytes 12 and 13.
* `c11_no_effect` (full): a rejected message leaves the receiver state unchanged, so later valid frames are
  processed exactly as if the garbage had never arrived. -/

namespace C11
open Codec Gen.Codec

/-! ## 1. Call-site facts this property rests on -/

/-- the AEAD nonce is a prefix `header[0:NonceSize()]` in both directions, the additional data is `nil`, a failed
`Open` returns before the frame is filled, `recvDataFromRemote` returns on a decode error before touching the
session, and `deplex` only logs that error and keeps reading -/
theorem gen_structure :
    sealNonceLo = 0 ∧ openNonceLo = 0 ∧ sealAADNil = true ∧ openAADNil = true ∧ openErrReturns = true ∧
    deobfOrder = true ∧ recvErrReturnsFirst = true ∧ deplexContinues = true := by decide

theorem gen_nonce_prefix (ns : Int) : sealNonceHi ns = ns ∧ openNonceHi ns = ns := by
  unfold sealNonceHi openNonceHi; omega

/-! ## 2. Totality -/

/-- **C11 (no crash).** For every cipher whose key stream has the requested length and whose nonce passed
`MakeObfuscator`'s check, every key and EVERY byte string of any length, `deobfuscate` ends in `ok` or one of
its three error returns — never in a run-time panic.  All four methods (`C.aead = none` is plain). -/
theorem c11_total (C : Crypto) (hs : ∀ k n l, (C.stream k n l).length = l)
    (hn : ∀ a : Aead, C.aead = some a → nonceTooLong a.nonceSize = false) (key msg : Bytes) :
    deobfuscate C key msg ≠ .panic := by
  have hns : ∀ a : Aead, C.aead = some a → a.nonceSize ≤ 14 := by
    intro a hc
    have := hn a hc
    rw [gen_nonceTooLong] at this; simpa using this
  rw [deobf_nf C hs hns]
  unfold deobfNF
  split
  · simp
  · rename_i hlen
    dsimp only
    have ht : (msg.take 14).length = 14 := by simp; omega
    have hx : (xor (msg.take 14) (C.stream key (msg.drop (msg.length - 8)) 14)).length = 14 := by
      rw [xor_length _ _ (by rw [ht, hs]), ht]
    generalize xor (msg.take 14) (C.stream key (msg.drop (msg.length - 8)) 14) = hdr at *
    have h12 : hdr[12]? = some hdr[12] := List.getElem?_eq_getElem (by omega)
    have h13 : hdr[13]? = some hdr[13] := List.getElem?_eq_getElem (by omega)
    rw [h12, h13]
    dsimp only
    split
    · simp
    · cases C.aead with
      | none => simp
      | some a =>
        dsimp only
        cases a.aopen key (hdr.take a.nonceSize) (msg.drop 14) [] <;> simp

/-! ## 3. Authenticity: the full statement, its refutation, and what does hold -/

/-- what the proofs of this section use about the cipher (no decryption law: it would contradict `INT`) -/
structure CipherOK (C : Crypto) (a : Aead) : Prop where
  is_aead : C.aead = some a
  stream_len : ∀ k n l, (C.stream k n l).length = l
  seal_len : ∀ k n p, (a.aseal k n p []).length = p.length + a.overhead
  tag_ge : 8 ≤ a.overhead
  nonce12 : a.nonceSize = 12

/-- the message an honest sender emits for frame `fp.1` with padding bytes `fp.2` (AEAD methods) -/
def sentMsg (C : Crypto) (key : Bytes) (fp : Frame × Bytes) : Bytes := honestMsg C key fp.1 fp.2 []

/-- integrity idealisation for the session key: a ciphertext opens only if it is, with its nonce, one of the
ciphertexts the honest holders of the key produced for the frames in `sent` -/
def INT (C : Crypto) (a : Aead) (key : Bytes) (sent : List (Frame × Bytes)) : Prop :=
  ∀ n c p, a.aopen key n c [] = some p →
    ∃ fp ∈ sent, n = (hdrNF fp.1 (fp.2.length + tagNF C)).take a.nonceSize ∧ c = a.aseal key n (fp.1.payload ++ fp.2) []

/-- **C11 (authenticity), as stated**: with an AEAD method, a message is accepted only if it is one of the
messages produced under this session's key. -/
def c11_auth_full : Prop :=
  ∀ (C : Crypto) (a : Aead), CipherOK C a → ∀ (key : Bytes) (sent : List (Frame × Bytes)), INT C a key sent →
    ∀ (msg' : Bytes) (f' : Frame), deobfuscate C key msg' = .ok f' → ∃ fp ∈ sent, msg' = sentMsg C key fp

theorem drop_last8 (m : Bytes) (h : 22 ≤ m.length) :
    m.drop (m.length - 8) = (m.drop 14).drop ((m.drop 14).length - 8) := by
  rw [List.drop_drop, List.length_drop]
  congr 1; omega

theorem xor_cancel (a b c : Bytes) (h : a.length = b.length) (hx : xor a b = c) : a = xor c b := by
  rw [← hx, xor_xor a b h]

/-- **C11 (authenticity, partial — proved).** Under `INT`, an accepted message shares with some message that
was really sent its whole body (ciphertext, tag, hence the Salsa20 nonce) and its first 12 bytes (stream id and
sequence number).  It has the same length and can differ from it ONLY at byte 12 (closing flag) and byte 13
(extra length). -/
theorem c11_auth_partial (C : Crypto) (a : Aead) (hC : CipherOK C a) (key : Bytes) (sent : List (Frame × Bytes))
    (hINT : INT C a key sent) (msg' : Bytes) (f' : Frame) (hacc : deobfuscate C key msg' = .ok f') :
    ∃ fp ∈ sent, msg'.drop 14 = (sentMsg C key fp).drop 14 ∧ msg'.take 12 = (sentMsg C key fp).take 12 ∧
      msg'.length = (sentMsg C key fp).length := by
  have hns : ∀ b : Aead, C.aead = some b → b.nonceSize ≤ 14 := by
    intro b hb
    rw [hC.is_aead] at hb
    cases hb; rw [hC.nonce12]; decide
  rw [deobf_nf C hC.stream_len hns] at hacc
  unfold deobfNF at hacc
  split at hacc
  · cases hacc
  · rename_i hlen
    dsimp only at hacc
    split at hacc
    · rename_i closing extra h12 h13
      split at hacc
      · cases hacc
      · rw [hC.is_aead] at hacc
        dsimp only at hacc
        split at hacc
        · cases hacc
        · rename_i pt hopen
          obtain ⟨fp, hfp, hn, hc⟩ := hINT _ _ _ hopen
          refine ⟨fp, hfp, ?_⟩
          -- the sender's pieces
          have htag : tagNF C = a.overhead := by unfold tagNF; rw [hC.is_aead]
          unfold sentMsg honestMsg honestBody
          rw [hC.is_aead]
          dsimp only
          generalize hH : hdrNF fp.1 (fp.2.length + tagNF C) = H at hn
          have hHl : H.length = 14 := by rw [← hH]; exact hdrNF_length _ _
          generalize hB : a.aseal key (H.take a.nonceSize) (fp.1.payload ++ fp.2) [] = B
          have hBl : 8 ≤ B.length := by
            rw [← hB, hC.seal_len]; have := hC.tag_ge; omega
          have hxl : (xor H (C.stream key (B.drop (B.length - 8)) 14)).length = 14 := by
            rw [xor_length _ _ (by rw [hHl, hC.stream_len]), hHl]
          have hbody : msg'.drop 14 = B := by rw [hc, hn, hB]
          have hnon8 : msg'.drop (msg'.length - 8) = B.drop (B.length - 8) := by
            rw [drop_last8 msg' (by omega), hbody]
          refine ⟨?_, ?_, ?_⟩
          · rw [List.drop_left' hxl]; exact hbody
          · -- same Salsa20 nonce, hence same key stream; the first 12 plaintext header bytes are the AEAD nonce
            rw [hnon8, hC.nonce12, xor_take, List.take_take] at hn
            have hl1 : (msg'.take 12).length = 12 := by simp; omega
            have hl2 : ((C.stream key (B.drop (B.length - 8)) 14).take 12).length = 12 := by
              simp [hC.stream_len]
            have hn' : xor (msg'.take 12) ((C.stream key (B.drop (B.length - 8)) 14).take 12) = H.take 12 := by
              simpa using hn
            have := xor_cancel _ _ _ (by rw [hl1, hl2]) hn'
            rw [this, List.take_append_of_le_length (by rw [hxl]; decide), xor_take]
          · have : msg'.length = 14 + (msg'.drop 14).length := by simp; omega
            rw [this, hbody, List.length_append, hxl]
    · cases hacc

/-- consequence in terms of positions: every byte other than bytes 12 and 13 is the sent one -/
theorem only_12_13 (m' m : Bytes) (h1 : m'.drop 14 = m.drop 14) (h2 : m'.take 12 = m.take 12) (hl : m'.length = m.length)
    (i : Nat) (hi : i ≠ 12 ∧ i ≠ 13) : m'[i]? = m[i]? := by
  by_cases h : i < 12
  · have a1 : (m'.take 12)[i]? = m'[i]? := by rw [List.getElem?_take]; simp [h]
    have a2 : (m.take 12)[i]? = m[i]? := by rw [List.getElem?_take]; simp [h]
    rw [← a1, ← a2, h2]
  · have hge : 14 ≤ i := by omega
    have a1 : (m'.drop 14)[i - 14]? = m'[i]? := by rw [List.getElem?_drop]; congr 1; omega
    have a2 : (m.drop 14)[i - 14]? = m[i]? := by rw [List.getElem?_drop]; congr 1; omega
    rw [← a1, ← a2, h1]

/-- **The forgery, against every lawful cipher** (needs no key): for every sent frame and every byte value `c'`
the message that differs from the sent one only in byte 12 (by `closing XOR c'`) is accepted and decodes to
the same frame with the closing flag replaced by `c'` — e.g. 0 → 1 closes the stream, 0 → 2 the session. -/
theorem c11_witness_general (C : Crypto) (hL : Lawful C) (h12 : ∀ a : Aead, C.aead = some a → a.nonceSize = 12)
    (key : Bytes) (f : Frame) (pad tail : Bytes) (c' : UInt8)
    (hsid : f.sid < 2^32) (hseq : f.seq < 2^64) (he : pad.length + tagNF C ≤ 255) (htail : C.aead = none → tail.length = 8) :
    ∃ msg', msg'.drop 14 = (honestMsg C key f pad tail).drop 14 ∧
            msg'.take 12 = (honestMsg C key f pad tail).take 12 ∧
            deobfuscate C key msg' = .ok { f with closing := c' } := by
  let f' : Frame := { f with closing := c' }
  have hns : ∀ a : Aead, C.aead = some a → a.nonceSize ≤ 14 := by
    intro a hc; rw [h12 a hc]; decide
  have hH : ∀ g : Frame, (hdrNF g (pad.length + tagNF C)).length = 14 := fun g => hdrNF_length _ _
  -- the forged message is the honest message of f'; its body is the body of f because the nonce slice agrees
  have hnon : ∀ a : Aead, C.aead = some a →
      (hdrNF f' (pad.length + tagNF C)).take a.nonceSize = (hdrNF f (pad.length + tagNF C)).take a.nonceSize := by
    intro a hc
    rw [h12 a hc, hdrNF_take12, hdrNF_take12]
  have hbody : honestBody C key (hdrNF f' (pad.length + tagNF C)) f' pad tail
      = honestBody C key (hdrNF f (pad.length + tagNF C)) f pad tail := by
    unfold honestBody
    cases hc : C.aead with
    | none => rfl
    | some a => dsimp only; rw [hnon a hc]
  refine ⟨honestMsg C key f' pad tail, ?_, ?_, ?_⟩
  · unfold honestMsg
    dsimp only
    rw [hbody]
    have hx : ∀ g : Frame, ∀ ks : Bytes, ks.length = 14 → (xor (hdrNF g (pad.length + tagNF C)) ks).length = 14 := by
      intro g ks hk; rw [xor_length _ _ (by rw [hH, hk]), hH]
    rw [List.drop_left' (hx f' _ (hL.stream_len _ _ _)), List.drop_left' (hx f _ (hL.stream_len _ _ _))]
  · unfold honestMsg
    dsimp only
    rw [hbody]
    have hx : ∀ g : Frame, ∀ ks : Bytes, ks.length = 14 → (xor (hdrNF g (pad.length + tagNF C)) ks).length = 14 := by
      intro g ks hk; rw [xor_length _ _ (by rw [hH, hk]), hH]
    rw [List.take_append_of_le_length (by rw [hx f' _ (hL.stream_len _ _ _)]; decide),
      List.take_append_of_le_length (by rw [hx f _ (hL.stream_len _ _ _)]; decide), xor_take, xor_take, hdrNF_take12, hdrNF_take12]
  · rw [deobf_nf C hL.stream_len hns]
    exact decode_honest C hL key f' pad tail hsid hseq he htail

/-! ### a concrete cipher with perfect integrity for one sent message -/

def f0 : Frame := ⟨3, 9, 0, [0x61, 0x62, 0x63, 0x64]⟩
def key0 : Bytes := []
def n0 : Bytes := (hdrNF f0 16).take 12
def c0 : Bytes := f0.payload ++ List.replicate 16 7

/-- opens exactly the one ciphertext that was sent (with its nonce): `INT` holds by construction -/
def intAead : Aead :=
  ⟨16, 12, fun _ _ p _ => p ++ List.replicate 16 7, fun _ n c _ => if n = n0 ∧ c = c0 then some f0.payload else none⟩

def intC : Crypto := ⟨some intAead, fun _ _ l => List.replicate l 0x5a⟩

theorem intC_ok : CipherOK intC intAead where
  is_aead := rfl
  stream_len := by intro k n l; simp [intC]
  seal_len := by intro k n p; simp [intAead]
  tag_ge := by decide
  nonce12 := rfl

theorem intC_INT : INT intC intAead key0 [(f0, [])] := by
  intro n c p h
  refine ⟨(f0, []), by simp, ?_⟩
  simp only [intAead] at h
  split at h
  · rename_i hnc
    obtain ⟨h1, h2⟩ := hnc
    subst h1 h2
    constructor
    · decide
    · decide
  · cases h

/-- the sent message with bit 0 of byte 12 flipped -/
def forged12 : Bytes := (sentMsg intC key0 (f0, [])).modify 12 (· ^^^ 1)
/-- the sent message with byte 13 changed so that the extra length reads 18 instead of 16 -/
def forged13 : Bytes := (sentMsg intC key0 (f0, [])).modify 13 (· ^^^ (16 ^^^ 18))

/-- both forgeries are accepted: the first with the closing flag 0 → 1, the second with the payload cut short -/
theorem forged_accepted :
    deobfuscate intC key0 (sentMsg intC key0 (f0, [])) = .ok f0 ∧
    deobfuscate intC key0 forged12 = .ok { f0 with closing := 1 } ∧
    deobfuscate intC key0 forged13 = .ok { f0 with payload := [0x61, 0x62] } ∧
    forged12 ≠ sentMsg intC key0 (f0, []) ∧ forged13 ≠ sentMsg intC key0 (f0, []) := by decide

/-- **C11 (authenticity) is false of the pinned code**: a cipher with perfect integrity, one sent message, and
a modified message that is nevertheless accepted. -/
theorem c11_witness : ¬ c11_auth_full := by
  intro h
  obtain ⟨fp, hfp, heq⟩ := h intC intAead intC_ok key0 [(f0, [])] intC_INT forged12 _ forged_accepted.2.1
  simp only [List.mem_singleton] at hfp
  subst hfp
  exact forged_accepted.2.2.2.1 heq

/-- non-vacuity of `c11_auth_partial`: its hypotheses hold for `intC`, and the forged message is a case where
its conclusion is the best possible (same body, same first 12 bytes, byte 12 differs) -/
example : CipherOK intC intAead ∧ INT intC intAead key0 [(f0, [])] ∧
    forged12.drop 14 = (sentMsg intC key0 (f0, [])).drop 14 ∧ forged12.take 12 = (sentMsg intC key0 (f0, [])).take 12 ∧
    forged12[12]? ≠ (sentMsg intC key0 (f0, []))[12]? :=
  ⟨intC_ok, intC_INT, by decide, by decide, by decide⟩

/-! ## 4. Rejected input has no effect -/

/-- is `msg` accepted by `deobfuscate`? -/
def accepted (C : Crypto) (key msg : Bytes) : Bool :=
  match deobfuscate C key msg with
  | .ok _ => true
  | _ => false

theorem recv_rejected {σ : Type} (C : Crypto) (key : Bytes) (deliver : σ → Frame → σ) (s : σ) (msg : Bytes)
    (h : accepted C key msg = false) : recv C key deliver s msg = s := by
  unfold accepted at h
  unfold recv
  split
  · rename_i f hf; rw [hf] at h; cases h
  · rfl

/-- **C11 (no effect).** Whatever the session does with decoded frames (`deliver`), feeding it any sequence of
received messages gives the same state as feeding only the accepted ones: rejected input — garbage, forged or
foreign messages — changes nothing, and every later valid frame is processed as if it had not arrived. -/
theorem c11_no_effect {σ : Type} (C : Crypto) (key : Bytes) (deliver : σ → Frame → σ) (msgs : List Bytes) :
    ∀ s : σ, msgs.foldl (recv C key deliver) s = (msgs.filter (accepted C key)).foldl (recv C key deliver) s := by
  induction msgs with
  | nil => intro s; rfl
  | cons m rest ih =>
    intro s
    rw [List.foldl_cons, List.filter_cons]
    cases h : accepted C key m with
    | false => simp only [Bool.false_eq_true, if_false]; rw [recv_rejected C key deliver s m h]; exact ih s
    | true => simp only [if_true, List.foldl_cons]; exact ih _

/-- the form used by the harness scenario: garbage first, then valid traffic -/
theorem c11_garbage_then_valid {σ : Type} (C : Crypto) (key : Bytes) (deliver : σ → Frame → σ) (garbage rest : List Bytes)
    (hg : ∀ g ∈ garbage, accepted C key g = false) (s : σ) :
    (garbage ++ rest).foldl (recv C key deliver) s = rest.foldl (recv C key deliver) s := by
  rw [List.foldl_append]
  congr 1
  rw [c11_no_effect]
  have : garbage.filter (accepted C key) = [] := by
    rw [List.filter_eq_nil_iff]; intro g hgm; rw [hg g hgm]; simp
  rw [this]; rfl

/-- non-vacuity: with the toy cipher, a short string and a string with a bad extra length are rejected and a real
message after them is delivered -/
example :
    let deliver : List Frame → Frame → List Frame := fun s f => s ++ [f]
    [[1, 2, 3], List.replicate 40 0xff, sentMsg intC key0 (f0, [])].foldl (recv intC key0 deliver) [] = [f0] := by
  decide

end C11

#print axioms C11.c11_total
#print axioms C11.c11_auth_partial
#print axioms C11.c11_witness
#print axioms C11.c11_witness_general
#print axioms C11.c11_no_effect
