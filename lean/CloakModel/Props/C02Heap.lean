import CloakModel.Lemmas.HeapCore

/-! C02, heap part: Go's `container/heap` over `sorterHeap` keeps the binary-heap order, `Pop` returns a minimum,
`Push`/`Pop` preserve the multiset; bridge to the abstract sorted store of `Model/ReorderBuf`. -/

namespace C02Heap
open GoHeap RB HeapCore

/-- the structural facts the extractor reads from `sorterHeap` and from `$GOROOT/src/container/heap/heap.go` -/
theorem gen_structure :
    Gen.Heap.shSwapSwaps = true ∧ Gen.Heap.shPushAppends = true ∧ Gen.Heap.shPopLast = true ∧ Gen.Heap.shLenIsLen = true ∧
    Gen.Heap.heapPushShape = true ∧ Gen.Heap.heapPopShape = true ∧ Gen.Heap.upLoopShape = true ∧ Gen.Heap.downLoopShape = true ∧
    Gen.Heap.sbPushCall = true ∧ Gen.Heap.sbUsesContainerHeap = true := by decide

/-- `sorterHeap.Less(i, j)` is `sh[i].Seq < sh[j].Seq` on the (unsigned) sequence numbers -/
theorem gen_less (x y : Nat) : Gen.Heap.shLess (x : Int) (y : Int) = decide (x < y) := HeapCore.gen_less x y

/-- index formulas of `up`/`down` -/
theorem gen_index (j : Nat) :
    Gen.Heap.upParent j = (j - 1) / 2 ∧ Gen.Heap.downLeft j = 2 * j + 1 ∧ Gen.Heap.downRight j = j + 1 :=
  ⟨gen_parent j, gen_left j, gen_right j⟩

/-- branch conditions of `up`/`down` as the model has them (`i = j ∨ ¬less`, `j1 < n`, `j2 < n ∧ less`, `¬less`) -/
theorem gen_branches (i j n : Nat) (b : Bool) :
    Gen.Heap.upBreak (i : Int) (j : Int) b = (decide (i = j) || !b) ∧
    Gen.Heap.downStop (j : Int) (n : Int) = !decide (j < n) ∧
    Gen.Heap.downPickRight (j : Int) (n : Int) b = (decide (j < n) && b) ∧
    Gen.Heap.downBreak b = !b := by
  unfold Gen.Heap.upBreak Gen.Heap.downStop Gen.Heap.downPickRight Gen.Heap.downBreak
  refine ⟨?_, ?_, ?_, ?_⟩
  · by_cases h : i = j <;> simp [h] <;> omega
  · by_cases h : j < n <;> simp [h] <;> omega
  · by_cases h : j < n <;> simp [h] <;> omega
  · rfl

/-- the heaps `streamBuffer.sh` can ever hold: built from the empty slice by `heap.Push` / `heap.Pop` -/
inductive Reach : Heap → Prop
  | empty : Reach #[]
  | push {a : Heap} (x : Frame) : Reach a → Reach (heapPush a x)
  | pop {a : Heap} (h : 0 < a.size) : Reach a → Reach (heapPop a h).2

/-- every reachable array is a binary min-heap on `Seq`: `a[(k-1)/2].Seq ≤ a[k].Seq` for all `0 < k < len` -/
theorem c02_heap_invariant {a : Heap} (r : Reach a) : HeapInv a a.size := by
  induction r with
  | empty => intro k p _ hks; simp at hks
  | push x _ ih => rw [size_push]; exact push_heap _ x ih
  | pop h _ ih => rw [size_pop]; exact pop_heap _ h ih

theorem mem_key (a : Heap) (f : Frame) (hf : f ∈ a.toList) : ∃ k, k < a.size ∧ key a k = f.seq := by
  obtain ⟨k, hk, e⟩ := List.mem_iff_getElem.1 hf
  have hk' : k < a.size := by simpa using hk
  refine ⟨k, hk', ?_⟩
  rw [key_eq a k hk', ← e]; simp

/-- `sb.sh[0]` carries a smallest sequence number of the store (duplicates allowed) -/
theorem c02_heap_root_min {a : Heap} (r : Reach a) (h : 0 < a.size) : ∀ f ∈ a.toList, a[0].seq ≤ f.seq := by
  intro f hf
  obtain ⟨k, hk, e⟩ := mem_key a f hf
  have := root_min a a.size (c02_heap_invariant r) k hk
  rw [key_eq a 0 h] at this; omega

/-- `heap.Pop` returns `sb.sh[0]`, which is a minimum, and removes exactly that one element (as multisets) -/
theorem c02_heap_pop_min {a : Heap} (r : Reach a) (h : 0 < a.size) :
    (heapPop a h).1 = a[0] ∧ (∀ f ∈ a.toList, (heapPop a h).1.seq ≤ f.seq) ∧
    a.toList.Perm ((heapPop a h).1 :: (heapPop a h).2.toList) := by
  refine ⟨pop_fst a h, ?_, pop_perm a h⟩
  rw [pop_fst]; exact c02_heap_root_min r h

/-- `heap.Push` adds exactly the pushed frame (as multisets) -/
theorem c02_heap_push_perm (a : Heap) (x : Frame) : (heapPush a x).toList.Perm (x :: a.toList) := push_perm a x

/-- the fuel handed to `up`/`down` by `heapPush`/`heapPop` suffices: `up_heap`/`down_heap` need `j < fuel` resp.
`n ≤ i + fuel`, which is what `heapPush` (`fuel = len`) and `heapPop` (`fuel = n + 1`) supply. -/
theorem c02_heap_fuel (a : Heap) (x : Frame) (h : 0 < a.size) :
    (a.push x).size - 1 < a.size + 1 ∧ a.size - 1 ≤ 0 + (a.size - 1 + 1) := by
  simp

def ex : Heap := heapPush (heapPush (heapPush (heapPush (heapPush #[] ⟨5, false, []⟩) ⟨3, false, []⟩) ⟨9, false, []⟩) ⟨1, false, []⟩) ⟨3, false, []⟩

/-- non-vacuity: a reachable heap with a duplicate key; the layout and the pop are what the real code gives -/
example : Reach ex := .push _ (.push _ (.push _ (.push _ (.push _ .empty))))
example : ex.toList.map (·.seq) = [1, 3, 9, 5, 3] := by decide
example : ((heapPop ex (by decide)).1.seq, (heapPop ex (by decide)).2.toList.map (·.seq)) = (1, [3, 3, 9, 5]) := by decide

/-! ### bridge to the abstract store of `Model/ReorderBuf` (a list kept sorted by `ins`) -/

/-- same stream state, the array holding the same multiset of frames as the sorted list -/
def Rel (s : SBH) (t : SB) : Prop :=
  s.next = t.next ∧ s.buf = t.buf ∧ s.out = t.out ∧ s.closed = t.closed ∧ s.heap.toList.Perm t.heap

/-- FULL bridge (proved in `Props/C02HeapBridge.lean`: `c02_heap_bridge`): from related states — reachable array, sorted abstract list, and no two
*different* frames with the same `Seq` among the stored frames and the arriving one (identical copies are allowed) —
`streamBuffer.Write` over the array heap and over the abstract store give the same result and related states. -/
def c02_heap_bridge_full : Prop :=
  ∀ (s : SBH) (t : SB) (f : Frame), Reach s.heap → Rel s t → t.heap.Pairwise (fun x y => x.seq ≤ y.seq) →
    (∀ x ∈ f :: t.heap, ∀ y ∈ f :: t.heap, x.seq = y.seq → x = y) →
    (writeH s f).2 = (RB.write t f).2 ∧ Rel (writeH s f).1 (RB.write t f).1 ∧ Reach (writeH s f).1.heap

/-- PARTIAL bridge — the step the loop of `Write` repeats: if the array holds the multiset `g :: gs` whose head `g` is a
minimum (the abstract list is sorted) then `heap.Pop` returns exactly `g` and leaves the multiset `gs`.  Missing for
`c02_heap_bridge_full`: the induction over the drain loop (`drainH` vs `RB.drain`) and "`ins` keeps the list sorted and is a
permutation of `f :: l`" on the abstract side. -/
theorem c02_heap_bridge_partial {a : Heap} (r : Reach a) (h : 0 < a.size) (g : Frame) (gs : List Frame)
    (hp : a.toList.Perm (g :: gs)) (hs : ∀ y ∈ gs, g.seq ≤ y.seq)
    (hu : ∀ x ∈ g :: gs, ∀ y ∈ g :: gs, x.seq = y.seq → x = y) :
    (heapPop a h).1 = g ∧ (heapPop a h).2.toList.Perm gs ∧ a[0] = g := by
  have hm := c02_heap_pop_min r h
  have h0 : a[0] ∈ a.toList := by simp
  have hmem : (heapPop a h).1 ∈ g :: gs := hp.subset (by rw [hm.1]; exact h0)
  have hgm : g ∈ g :: gs := by simp
  have hg : g ∈ a.toList := hp.symm.subset hgm
  have h1 : (heapPop a h).1.seq ≤ g.seq := hm.2.1 g hg
  have h2 : g.seq ≤ (heapPop a h).1.seq := by
    rcases List.mem_cons.1 hmem with e | e
    · rw [e]; exact Nat.le_refl _
    · exact hs _ e
  have e : (heapPop a h).1 = g := hu _ hmem g hgm (by omega)
  refine ⟨e, ?_, by rw [← hm.1]; exact e⟩
  have hq := hm.2.2
  rw [e] at hq
  exact List.Perm.cons_inv (hq.symm.trans hp)

example : ∃ (a : Heap) (_ : Reach a) (g : Frame) (gs : List Frame), 0 < a.size ∧ a.toList.Perm (g :: gs) ∧ (∀ y ∈ gs, g.seq ≤ y.seq) :=
  ⟨heapPush #[] ⟨5, false, []⟩, .push _ .empty, ⟨5, false, []⟩, [], by decide, c02_heap_push_perm _ _, by simp⟩

/-! ### duplicate sequence numbers (outside C02: the property quantifies over orders with each frame delivered once)

A frame with `Seq > next` delivered twice: after the first copy is drained the second copy has `Seq < nextRecvSeq`, sits at
`sh[0]`, and `sb.sh[0].Seq == sb.nextRecvSeq` is false from then on: every later frame queues behind it.  The array model
and the abstract sorted-list model of `Model/ReorderBuf` agree on this run (and the harness replays it on the real code:
malformed script of scenario `C02heap`). -/

def dupFrames : List Frame := [⟨2, false, [7]⟩, ⟨2, false, [7]⟩, ⟨0, false, [5]⟩, ⟨1, false, [6]⟩, ⟨3, false, [8]⟩, ⟨4, false, [9]⟩]

def runH (sb : SBH) (fs : List Frame) : SBH := fs.foldl (fun s f => (writeH s f).1) sb
def runA (sb : SB) (fs : List Frame) : SB := fs.foldl (fun s f => (RB.write s f).1) sb

/-- the stream is wedged: frames 3 and 4 are parked behind the stale duplicate 2, `next` stays 3, their bytes never reach the pipe -/
theorem c02_heap_duplicate_wedges_witness :
    let s := runH (initH 0) dupFrames
    s.next = 3 ∧ s.heap.toList.map (·.seq) = [2, 3, 4] ∧ s.buf = [5, 6, 7] := by decide

/-- the abstract model of `Props/C02` gives the same state on this run -/
theorem c02_heap_duplicate_agrees_witness :
    let s := runH (initH 0) dupFrames
    let t := runA (RB.init 0) dupFrames
    t.next = s.next ∧ t.heap.map (·.seq) = [2, 3, 4] ∧ t.buf = s.buf := by decide

end C02Heap
