import CloakModel.Lemmas.HeapCore

/-! C02, heap part: Go's `container/heap` over `sorterHeap` keeps the binary-heap order, `Pop` returns a minimum,
`Push`/`Pop` preserve the multiset; bridge to the abstract sorted store of `Model/ReorderBuf`. -/

namespace C02Heap
open GoHeap RB HeapCore

/-- the structural facts the extractor reads from `sorterHeap` and from `$GOROOT/src/container/heap/heap.go` -/
theorem gen_structure :
    Gen.Heap.shSwapSwaps = true ∧ Gen.Heap.shPushAppends = true ∧ Gen.Heap.shPopLast = true ∧ Gen.Heap.shLenIsLen = true ∧
    Gen.Heap.heapPushShape = true ∧ Gen.Heap.heapPopShape = true ∧ Gen.Heap.upLoopShape = true ∧ Gen.Heap.downLoopShape = true ∧
    Gen.Heap.sbPushCall = true ∧ Gen.Heap.sbUsesContainerHeap = true := by decide

/-- `sorterHeap.Less(i, j)` is `sh[i].Seq < sh[j].Seq` on the (unsigned) sequence numbers -/
theorem gen_less (x y : Nat) : Gen.Heap.shLess (x : Int) (y : Int) = decide (x < y) := HeapCore.gen_less x y

/-- index formulas of `up`/`down` -/
theorem gen_index (j : Nat) :
    Gen.Heap.upParent j = (j - 1) / 2 ∧ Gen.Heap.downLeft j = 2 * j + 1 ∧ Gen.Heap.downRight j = j + 1 :=
  ⟨gen_parent j, gen_left j, gen_right j⟩

/-- branch conditions of `up`/`down` as the model has them (`i = j ∨ ¬less`, `j1 < n`, `j2 < n ∧ less`, `¬less`) -/
theorem gen_branches (i j n : Nat) (b : Bool) :
    Gen.Heap.upBreak (i : Int) (j : Int) b = (decide (i = j) || !b) ∧
    Gen.Heap.downStop (j : Int) (n : Int) = !decide (j < n) ∧
    Gen.Heap.downPickRight (j : Int) (n : Int) b = (decide (j < n) && b) ∧
    Gen.Heap.downBreak b = !b := by
  unfold Gen.Heap.upBreak Gen.Heap.downStop Gen.Heap.downPickRight Gen.Heap.downBreak
  refine ⟨?_, ?_, ?_, ?_⟩
  · by_cases h : i = j <;> simp [h] <;> omega
  · by_cases h : j < n <;> simp [h] <;> omega
  · by_cases h : j < n <;> simp [h] <;> omega
  · rfl

/-- the heaps `streamBuffer.sh` can ever hold: built from the empty slice by `heap.Push` / `heap.Pop` -/
inductive Reach : Heap → Prop
  | empty : Reach #[]
  | push {a : Heap} (x : Frame) : Reach a → Reach (heapPush a x)
  | pop {a : Heap} (h : 0 < a.size) : Reach a → Reach (heapPop a h).2

/-- every reachable array is a binary min-heap on `Seq`: `a[(k-1)/2].Seq ≤ a[k].Seq` for all `0 < k < len` -/
theorem c02_heap_invariant {a : Heap} (r : Reach a) : HeapInv a a.size := by
  induction r with
  | empty => intro k p _ hks; simp at hks
  | push x _ ih => rw [size_push]; exact push_heap _ x ih
  | pop h _ ih => rw [size_pop]; exact pop_heap _ h ih

theorem mem_key (a : Heap) (f : Frame) (hf : f ∈ a.toList) : ∃ k, k < a.size ∧ key a k = f.seq := by
  obtain ⟨k, hk, e⟩ := List.mem_iff_getElem.1 hf
  have hk' : k < a.size := by simpa using hk
  refine ⟨k, hk', ?_⟩
  rw [key_eq a k hk', ← e]; simp

/-- `sb.sh[0]` carries a smallest sequence number of the store (duplicates allowed) -/
theorem c02_heap_root_min {a : Heap} (r : Reach a) (h : 0 < a.size) : ∀ f ∈ a.toList, a[0].seq ≤ f.seq := by
  intro f hf
  obtain ⟨k, hk, e⟩ := mem_key a f hf
  have := root_min a a.size (c02_heap_invariant r) k hk
  rw [key_eq a 0 h] at this; omega

/-- `heap.Pop` returns `sb.sh[0]`, which is a minimum, and removes exactly that one element (as multisets) -/
theorem c02_heap_pop_min {a : Heap} (r : Reach a) (h : 0 < a.size) :
    (heapPop a h).1 = a[0] ∧ (∀ f ∈ a.toList, (heapPop a h).1.seq ≤ f.seq) ∧
    a.toList.Perm ((heapPop a h).1 :: (heapPop a h).2.toList) := by
  refine ⟨pop_fst a h, ?_, pop_perm a h⟩
  rw [pop_fst]; exact c02_heap_root_min r h

/-- `heap.Push` adds exactly the pushed frame (as multisets) -/
theorem c02_heap_push_perm (a : Heap) (x : Frame) : (heapPush a x).toList.Perm (x :: a.toList) := push_perm a x

/-- the fuel handed to `up`/`down` by `heapPush`/`heapPop` suffices: `up_heap`/`down_heap` need `j < fuel` resp.
`n ≤ i + fuel`, which is what `heapPush` (`fuel = len`) and `heapPop` (`fuel = n + 1`) supply. -/
theorem c02_heap_fuel (a : Heap) (x : Frame) (h : 0 < a.size) :
    (a.push x).size - 1 < a.size + 1 ∧ a.size - 1 ≤ 0 + (a.size - 1 + 1) := by
  simp

def ex : Heap := heapPush (heapPush (heapPush (heapPush (heapPush #[] ⟨5, false, []⟩) ⟨3, false, []⟩) ⟨9, false, []⟩) ⟨1, false, []⟩) ⟨3, false, []⟩

/-- non-vacuity: a reachable heap with a duplicate key; the layout and the pop are what the real code gives -/
example : Reach ex := .push _ (.push _ (.push _ (.push _ (.push _ .empty))))
example : ex.toList.map (·.seq) = [1, 3, 9, 5, 3] := by decide
example : ((heapPop ex (by decide)).1.seq, (heapPop ex (by decide)).2.toList.map (·.seq)) = (1, [3, 3, 9, 5]) := by decide

end C02Heap
