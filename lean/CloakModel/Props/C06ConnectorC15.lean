import CloakModel.Props.C15
import CloakModel.Props.C06Connector

/-! The server side of `C06Connector.SameKey`, from C15: every handshake of one `MakeSession` call presents the same
`(UID, SessionId)`, i.e. the same `(rid, sid)` of the server's bookkeeping model.  After ANY history `pre`, once one of
them is attached with key `K`, and whatever the quantifier of C15 allows happens in between (`Quant`: other admissions,
refused connections and their clean-up, closures of other sessions, …), the next one is attached with the SAME key —
`C15.c15_same_session` says `.joined K`; here restated as "the key it is given is `K`", the form `SameKey` needs.
(That the client then decrypts exactly this key from the reply is C06's `c06_reply`.) -/

namespace C06ConnectorC15
open Panel C15

theorem sameKey_from_c15 (pre mid : List Ev) (rid sid k1 k2 : Nat) (now1 now2 : Int) (K : Nat)
    (h1 : attachedKey (getSession genCfg (run genCfg init pre) rid sid k1 now1).2 = some K)
    (hq : Quant genCfg rid sid (getSession genCfg (run genCfg init pre) rid sid k1 now1).1 (licensed genCfg init [] pre) mid) :
    attachedKey (getSession genCfg (run genCfg (getSession genCfg (run genCfg init pre) rid sid k1 now1).1 mid) rid sid k2 now2).2
      = some K := by
  rw [c15_same_session pre mid rid sid k1 k2 now1 now2 K h1 hq]
  rfl

end C06ConnectorC15

#print axioms C06ConnectorC15.sameKey_from_c15
