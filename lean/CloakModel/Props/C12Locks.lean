import CloakModel.Props.C12Close
import CloakModel.Lemmas.LocksCore
import CloakModel.Gen.MuxLocks
import CloakModel.Gen.Valve

/-! # C12 — the multiplexing layer's own locks cannot deadlock

`tools/extract/facts_c12locks.go` walks every control-flow path of the operations an application goroutine, a
`deplex` goroutine or a timer can run in `internal/multiplex` (`Stream.Write/ReadFrom/Close/Read`,
`Session.OpenStream/Accept/Close/checkTimeout/AddConnection`, `switchboard.deplex`), callees inlined — over a
thousand paths — and emits their distinct ACQUISITION CONTEXTS (locks held, lock acquired) over the lock classes

  `W` = `Stream.writingM` (0)  `T` = `Session.streamsM` (1)  `R` = `streamBuffer.recvM` (2)
  `L` = the pipes' `rwCond.L` (3)  `N` = `switchboard.addConnM` (4).

Rank-orderedness for `W < T < R < L < N` is DECIDED on whatever was extracted (so adding, removing or reordering
lock operations is accepted exactly when it stays deadlock-free), and the generic theorem of C17
(`Locks.locks_rank_ordered_no_deadlock`) gives: no reachable state of any number of such operations is deadlocked —
the answer to "deadlocks between the stream table lock, the accept queue and the per-stream write lock".
Assumptions (stated, not proved): a loop body is counted once; `sync.Cond.Wait` (which releases and re-takes `L`)
returns. The one channel operation performed under `streamsM` (`acceptCh <- newStream`) is a non-blocking `select`
case since fix 31ee1ad (`Gen.Session.recvEnqueueNonBlocking`, `C12.c12_backlog_bounded`); before that fix it could
park the receive loop inside the critical section for ever — the red team's accept-backlog finding. 
Since /repo's fix 07566d1 `send` begins with a turnstile — a channel of capacity one around the broken test and the limiter's
wait. It is not a mutex and not in the rank order; `gen_send_prologue` pins what the argument needs: the prologue is exactly one
of the two known shapes, so while the turn is held no lock is taken and nothing blocks but the limiter's bounded sleep; a sender
arrives at it holding at most its stream's `writingM`. -/
set_option maxRecDepth 100000

namespace C12L

/-- `send`'s prologue is the bare `txWait` or the turnstile around it (`tools/extract/facts_glue.go: sendPrologue`): no lock
acquisition inside the turn -/
theorem gen_send_prologue : Gen.Valve.txWaitBeforeWrite = true := by decide

open Locks

/-- acquisition contexts of a program: for every acquisition, the locks held at that moment -/
def ctxs : List Nat → List Instr → List (List Nat × Nat)
  | _, [] => []
  | held, .acq l :: p => (held, l) :: ctxs (l :: held) p
  | held, .rel l :: p => ctxs (held.erase l) p

/-- well bracketed: releases what is held, ends with nothing held -/
def wb : List Nat → List Instr → Prop
  | held, [] => held = []
  | held, .acq l :: p => wb (l :: held) p
  | held, .rel l :: p => l ∈ held ∧ wb (held.erase l) p

/-- rank-orderedness is a property of the acquisition contexts (plus bracketing) -/
theorem ok_iff_ctx (rank : Nat → Nat) : ∀ (p : List Instr) (held : List Nat),
    ok rank held p ↔ (wb held p ∧ ∀ c ∈ ctxs held p, ∀ h ∈ c.1, rank h < rank c.2) := by
  intro p
  induction p with
  | nil => intro held; simp [ok, wb, ctxs]
  | cons i p ih =>
    intro held
    cases i with
    | acq l =>
      simp only [ok, wb, ctxs, List.mem_cons, ih (l :: held)]
      constructor
      · rintro ⟨h1, h2, h3⟩
        refine ⟨h2, ?_⟩
        intro c hc
        rcases hc with rfl | hc
        · exact h1
        · exact h3 c hc
      · rintro ⟨h1, h2⟩
        exact ⟨h2 (held, l) (Or.inl rfl), h1, fun c hc => h2 c (Or.inr hc)⟩
    | rel l =>
      simp only [ok, wb, ctxs, ih (held.erase l)]
      constructor
      · rintro ⟨h1, h2, h3⟩; exact ⟨⟨h1, h2⟩, h3⟩
      · rintro ⟨⟨h1, h2⟩, h3⟩; exact ⟨h1, h2, h3⟩

/-- rank = class: `W < T < R < L < N` -/
def rankMux : Nat → Nat := fun l => l % 5

/-- **the decided obligation**: in every extracted acquisition context every held lock ranks strictly below the lock
being acquired, all classes are the five known ones, and every path was well bracketed -/
theorem gen_rank_ordered :
    Gen.MuxLocks.lockContexts.all (fun c => c.1.all (fun h => decide (rankMux h < rankMux c.2)) && decide (c.2 < 5) && c.1.all (fun h => decide (h < 5))) = true ∧
    Gen.MuxLocks.lockPathsWellBracketed = true := by decide

/-- the extraction is not vacuous: the deepest nesting (`writingM`, `streamsM`, `recvM`, then the pipe lock — a failing
send tearing the session down from inside `Stream.Write`) is there, hundreds of paths were examined, and the one
channel send under `streamsM` is the known one -/
theorem gen_nontrivial :
    (([2, 1, 0], 3) ∈ Gen.MuxLocks.lockContexts) ∧ Gen.MuxLocks.lockPathCount ≥ 100 ∧
    Gen.MuxLocks.sendsUnderStreamsM = 1 := by decide

/-- a thread works on lock INSTANCES: the write mutex of stream `u`, the receive-side locks of stream `v`, the one
`streamsM` and `addConnM` of the session -/
def instMux (u v : Nat) : Nat → Nat := fun c =>
  if c % 5 = 0 then c + 5 * (u + 1) else if c % 5 = 2 ∨ c % 5 = 3 then c + 5 * (v + 1) else c

theorem rank_inst (u v c : Nat) : rankMux (instMux u v c) = rankMux c := by
  unfold rankMux instMux
  split
  · omega
  · split <;> omega

theorem rank_bound : ∀ l, rankMux l < 5 := by intro l; unfold rankMux; omega

theorem inst_inj_on (u v : Nat) : ∀ a b, a < 5 → b < 5 → instMux u v a = instMux u v b → a = b := by
  intro a b ha hb h
  unfold instMux at h
  split at h <;> split at h <;> (try split at h) <;> (try split at h) <;> omega

def small : Instr → Prop
  | .acq l => l < 5
  | .rel l => l < 5

/-- `ok` is preserved by a renaming that is injective on the classes that occur and keeps ranks -/
theorem ok_inst (u v : Nat) : ∀ (p : List Instr) (held : List Nat),
    (∀ h ∈ held, h < 5) → (∀ i ∈ p, small i) →
    ok rankMux held p → ok rankMux (held.map (instMux u v)) (p.map (Instr.map (instMux u v))) := by
  intro p
  induction p with
  | nil => intro held _ _ h; simp only [ok] at h; subst h; simp [ok]
  | cons i p ih =>
    intro held hh hp h
    have hi := hp i (by simp)
    have hp' : ∀ j ∈ p, small j := fun j hj => hp j (by simp [hj])
    cases i with
    | acq l =>
      have hl : l < 5 := hi
      simp only [List.map_cons, Instr.map, ok] at h ⊢
      refine ⟨?_, ?_⟩
      · intro x hx
        obtain ⟨y, hy, rfl⟩ := List.mem_map.1 hx
        rw [rank_inst, rank_inst]
        exact h.1 y hy
      · have := ih (l :: held) (by intro x hx; rcases List.mem_cons.1 hx with rfl | hx; exact hl; exact hh x hx) hp' h.2
        simpa using this
    | rel l =>
      have hl : l < 5 := hi
      simp only [List.map_cons, Instr.map, ok] at h ⊢
      refine ⟨List.mem_map.2 ⟨l, h.1, rfl⟩, ?_⟩
      have herase : ∀ (hs : List Nat), (∀ y ∈ hs, y < 5) →
          (hs.erase l).map (instMux u v) = (hs.map (instMux u v)).erase (instMux u v l) := by
        intro hs
        induction hs with
        | nil => intro _; rfl
        | cons x xs ihx =>
          intro hxs
          have hx5 : x < 5 := hxs x (by simp)
          by_cases hxl : x = l
          · subst hxl; simp
          · have hne : instMux u v x ≠ instMux u v l := fun he => hxl (inst_inj_on u v x l hx5 hl he)
            have h1 : (x == l) = false := by simpa using hxl
            have h2 : (instMux u v x == instMux u v l) = false := by simpa using hne
            simp only [List.erase_cons, List.map_cons, h1, h2, Bool.false_eq_true, if_false]
            rw [ihx (fun y hy => hxs y (by simp [hy]))]
      rw [← herase held hh]
      exact ih (held.erase l) (fun x hx => hh x (List.mem_of_mem_erase hx)) hp' h.2

/-- what the extractor guarantees about a path of the multiplexing layer: well bracketed, and every acquisition
happens in one of the extracted contexts -/
def FromSource (p : List Instr) : Prop :=
  wb [] p ∧ ∀ c ∈ ctxs [] p, c ∈ Gen.MuxLocks.lockContexts

theorem fromSource_ok (p : List Instr) (h : FromSource p) : ok rankMux [] p ∧ ∀ i ∈ p, small i := by
  have hg := gen_rank_ordered.1
  rw [List.all_eq_true] at hg
  have hctx : ∀ c ∈ ctxs [] p, (∀ x ∈ c.1, rankMux x < rankMux c.2) ∧ c.2 < 5 ∧ ∀ x ∈ c.1, x < 5 := by
    intro c hc
    have := hg c (h.2 c hc)
    simp only [Bool.and_eq_true, List.all_eq_true, decide_eq_true_eq] at this
    exact ⟨this.1.1, this.1.2, this.2⟩
  refine ⟨(ok_iff_ctx rankMux p []).2 ⟨h.1, fun c hc => (hctx c hc).1⟩, ?_⟩
  -- every instruction mentions a class below 5: acquisitions by their context, releases because they release a held lock
  have key : ∀ (p : List Instr) (held : List Nat), (∀ x ∈ held, x < 5) → wb held p →
      (∀ c ∈ ctxs held p, c.2 < 5) → ∀ i ∈ p, small i := by
    intro p
    induction p with
    | nil => intro _ _ _ _ i hi; simp at hi
    | cons j q ih =>
      intro held hh hw hc i hi
      cases j with
      | acq l =>
        have hl : l < 5 := hc (held, l) (by simp [ctxs])
        rcases List.mem_cons.1 hi with rfl | hi
        · exact hl
        · exact ih (l :: held) (by intro x hx; rcases List.mem_cons.1 hx with rfl | hx; exact hl; exact hh x hx) hw
            (fun c hcc => hc c (by simp [ctxs, hcc])) i hi
      | rel l =>
        simp only [wb] at hw
        rcases List.mem_cons.1 hi with rfl | hi
        · exact hh l hw.1
        · exact ih (held.erase l) (fun x hx => hh x (List.mem_of_mem_erase hx)) hw.2
            (fun c hcc => hc c (by simpa [ctxs] using hcc)) i hi
  exact key p [] (by simp) h.1 (fun c hc => (hctx c hc).2.1)

/-- **C12 (lock order).** Any number of concurrent multiplexing operations — each a path of the kind the extractor
examined (well bracketed, every acquisition in an extracted context), working on the write mutex of some stream `u`,
the receive-side locks of some stream `v` and the session's own locks — under any schedule and any blocking discipline
in which a refused acquisition has a holder: no reachable state is deadlocked. -/
theorem c12_lock_order (D : Discipline) (s0 : List Thread)
    (h0 : ∀ t ∈ s0, t.held = [] ∧ ∃ p, FromSource p ∧ ∃ u v, t.prog = p.map (Instr.map (instMux u v)))
    (s : List Thread) (hr : Reach D s0 s) : ¬ Deadlocked D s := by
  apply locks_rank_ordered_no_deadlock D rankMux 5 rank_bound s0 _ s hr
  intro t ht
  obtain ⟨hh, p, hp, u, v, hprog⟩ := h0 t ht
  refine ⟨hh, ?_⟩
  rw [hprog]
  have := fromSource_ok p hp
  have := ok_inst u v p [] (by simp) this.2 this.1
  simpa using this

/-- non-vacuity: the deepest real path shape (`Stream.Write` whose send fails and tears the session down) is `FromSource` -/
example : FromSource [.acq 0, .acq 1, .acq 2, .acq 3, .rel 3, .rel 2, .rel 1, .rel 0] := by
  refine ⟨by simp [wb], ?_⟩
  intro c hc
  simp only [ctxs, List.mem_cons] at hc
  rcases hc with rfl | rfl | rfl | rfl | hc
  · decide
  · decide
  · decide
  · decide
  · simp at hc

/-- what a lock-order inversion looks like to this obligation: taking `streamsM` first and a stream's `writingM`
inside it yields the context `([1], 0)`, which fails the rank test -/
example : ([1], 0) ∈ ctxs [] [.acq 1, .acq 0, .rel 0, .rel 1] ∧ ¬ (rankMux 1 < rankMux 0) := by decide

end C12L

#print axioms C12L.c12_lock_order
#print axioms C12L.gen_rank_ordered
#print axioms C12L.ok_iff_ctx
