import CloakModel.Model.StreamPipeDeadline
import CloakModel.Gen.Backlog

/-! # C01 with read deadlines: the byte pipe of an ordered stream on a virtual clock

`Model/StreamPipeDeadline.lean` (`streamBufferedPipe.Read/Write/Close/SetReadDeadline/broadcastAfter`).

* `gen_deadline_sp`, `gen_timed_out` — the regenerated facts the model is built from.
* `c01_deadline_prefix` — after ANY sequence of writes, reads of any size (returning, timing out, or parking and being
  woken by a write / close / new deadline / the timer), closes, deadline changes and passages of time: the bytes returned so
  far followed by the bytes still buffered are exactly the bytes the pipe accepted, in order.  A deadline never loses,
  duplicates or reorders a byte.
* `sp_no_deadline_is_plain` — without a deadline a pass through the loop is `RB.read` (the pipe of C01/C02/C03's models).
* `sp_timeout_sound`, `sp_timeout_complete` — `ErrTimeout` ⇔ a deadline is set and reached and EOF is not due (also with
  bytes buffered: the deadline test precedes the data test).
* `c01_returns_by_deadline` — a parked reader under deadline `d` has the timer armed for exactly `d` and `now < d`. -/
set_option linter.unusedVariables false

namespace C01D
open SPD

theorem gen_deadline_sp :
    Gen.Deadline.spDeadlineOrder = true ∧ Gen.Deadline.spSetDeadlineWakes = true ∧ Gen.Deadline.spTimerArms = true ∧
    Gen.StreamClose.pipeEOFFirst = true ∧ Gen.StreamClose.pipeDataBeforeWait = true ∧
    Gen.StreamClose.pipeCloseSetsAndBroadcasts = true ∧ Gen.StreamClose.pipeWriteRefusesClosed = true := by decide

/-- no method of the pipes replaces, resets or truncates the byte buffer: the model's `buf` changes only by `Write` appending
and `Read` taking from the front (seed C01-8) -/
theorem gen_pipe_buf_stable : Gen.Backlog.pipeBufNeverReplaced = true := by decide

theorem gen_timed_out (d now : Nat) : Gen.Deadline.spTimedOut ((d : Int) - (now : Int)) = true ↔ d ≤ now := by
  unfold Gen.Deadline.spTimedOut
  simp only [decide_eq_true_eq]
  omega

theorem gen_eof (c : Bool) (b : Bytes) : Gen.StreamClose.pipeEOF c (b.length : Int) = true ↔ (c = true ∧ b = []) := by
  unfold Gen.StreamClose.pipeEOF
  simp only [Bool.and_eq_true, decide_eq_true_eq]
  constructor
  · rintro ⟨h1, h2⟩
    exact ⟨h1, List.length_eq_zero_iff.mp (by omega)⟩
  · rintro ⟨h1, h2⟩
    exact ⟨h1, by rw [h2]; rfl⟩

/-! ## one pass through the loop -/

theorem eval_cases (s : St) (cap : Nat) :
    (eval s cap = (s, .eof) ∧ s.closed = true ∧ s.buf = []) ∨
    (eval s cap = take s cap ∧ s.buf ≠ [] ∧ ∀ d, s.deadline = some d → s.now < d) ∨
    (eval s cap = (s, .timeout) ∧ ∃ d, s.deadline = some d ∧ d ≤ s.now ∧ ¬ (s.closed = true ∧ s.buf = [])) ∨
    ((eval s cap).2 = .park ∧
      (eval s cap).1 = { s with timer := (match s.deadline with | some d => some d | none => s.timer) } ∧
      s.buf = [] ∧ s.closed = false ∧ ∀ d, s.deadline = some d → s.now < d) := by
  obtain ⟨buf, closed, now, deadline, timer, pending, out, acc⟩ := s
  unfold eval
  by_cases heof : Gen.StreamClose.pipeEOF closed (buf.length : Int) = true
  · left
    rw [if_pos heof]
    exact ⟨rfl, (gen_eof closed buf).1 heof⟩
  · rw [if_neg heof]
    have hne : ¬ (closed = true ∧ buf = []) := fun h => heof ((gen_eof _ _).2 h)
    cases deadline with
    | some d =>
      simp only
      by_cases hto : Gen.Deadline.spTimedOut ((d : Int) - (now : Int)) = true
      · right; right; left
        rw [if_pos hto]
        exact ⟨rfl, d, rfl, (gen_timed_out d now).1 hto, hne⟩
      · rw [if_neg hto]
        have hlt : now < d := by
          have : ¬ d ≤ now := fun h => hto ((gen_timed_out d now).2 h)
          omega
        by_cases hhas : 0 < buf.length
        · right; left
          rw [if_pos hhas]
          refine ⟨rfl, ?_, ?_⟩
          · intro hb; rw [hb] at hhas; simp at hhas
          · intro d' hd'; injection hd' with hd'; omega
        · right; right; right
          rw [if_neg hhas]
          have hb : buf = [] := List.length_eq_zero_iff.mp (by omega)
          refine ⟨rfl, rfl, hb, ?_, ?_⟩
          · cases hc : closed with
            | false => rfl
            | true => exact absurd ⟨hc, hb⟩ hne
          · intro d' hd'; injection hd' with hd'; omega
    | none =>
      simp only
      by_cases hhas : 0 < buf.length
      · right; left
        rw [if_pos hhas]
        refine ⟨rfl, ?_, ?_⟩
        · intro hb; rw [hb] at hhas; simp at hhas
        · intro d' hd'; cases hd'
      · right; right; right
        rw [if_neg hhas]
        have hb : buf = [] := List.length_eq_zero_iff.mp (by omega)
        refine ⟨rfl, rfl, hb, ?_, ?_⟩
        · cases hc : closed with
          | false => rfl
          | true => exact absurd ⟨hc, hb⟩ hne
        · intro d' hd'; cases hd'

/-- **without a deadline a pass through the loop is the untimed pipe read** (`RB.read`, the pipe inside the reorder buffer
of C01/C02/C03): same answer (parking = `block`), same buffer, same bytes handed out -/
theorem sp_no_deadline_is_plain (s : St) (cap : Nat) (h : s.deadline = none) (sb : RB.SB)
    (hb : sb.buf = s.buf) (hc : sb.closed = s.closed) (ho : sb.out = s.out) :
    (RB.read sb cap).1.buf = (eval s cap).1.buf ∧ (RB.read sb cap).1.out = (eval s cap).1.out ∧
    (eval s cap).2 = (match (RB.read sb cap).2 with | .data b => .data b | .eof => .eof | .block => .park) := by
  unfold RB.read
  rcases eval_cases s cap with ⟨he, h1, h2⟩ | ⟨he, h1, _⟩ | ⟨_, d, hd, _⟩ | ⟨hp, hs, h1, h2, _⟩
  · rw [he, if_pos ⟨by rw [hc, h1], by rw [hb, h2]⟩]
    exact ⟨hb, ho, rfl⟩
  · have hnb : ¬ sb.buf = [] := by rw [hb]; exact h1
    rw [he, if_neg (fun hh => hnb hh.2), if_neg hnb]
    simp only [take, hb, ho]
    exact ⟨trivial, trivial, trivial⟩
  · rw [h] at hd; cases hd
  · have hcl : ¬ (sb.closed = true ∧ sb.buf = []) := by rw [hc, h2]; simp
    rw [hp, hs, if_neg hcl, if_pos (by rw [hb, h1])]
    exact ⟨hb, ho, rfl⟩

/-- a read that times out changes nothing -/
theorem sp_timeout_keeps (s : St) (cap : Nat) (h : (eval s cap).2 = .timeout) : (eval s cap).1 = s := by
  rcases eval_cases s cap with ⟨he, _⟩ | ⟨he, _⟩ | ⟨he, _⟩ | ⟨hp, _⟩
  · rw [he]
  · rw [he] at h; simp [take] at h
  · rw [he]
  · rw [hp] at h; cases h

theorem sp_timeout_sound (s : St) (cap : Nat) (h : (eval s cap).2 = .timeout) :
    ∃ d, s.deadline = some d ∧ d ≤ s.now ∧ ¬ (s.closed = true ∧ s.buf = []) := by
  rcases eval_cases s cap with ⟨he, _⟩ | ⟨he, _⟩ | ⟨_, hd⟩ | ⟨hp, _⟩
  · rw [he] at h; cases h
  · rw [he] at h; simp [take] at h
  · exact hd
  · rw [hp] at h; cases h

theorem sp_timeout_complete (s : St) (cap d : Nat) (hd : s.deadline = some d) (hle : d ≤ s.now)
    (hne : ¬ (s.closed = true ∧ s.buf = [])) : eval s cap = (s, .timeout) := by
  unfold eval
  have heof : ¬ Gen.StreamClose.pipeEOF s.closed (s.buf.length : Int) = true := fun h => hne ((gen_eof _ _).1 h)
  rw [if_neg heof, hd]
  simp only
  rw [if_pos ((gen_timed_out d s.now).2 hle)]

/-! ## no byte lost, duplicated or reordered -/

def P (s : St) : Prop := s.out ++ s.buf = s.acc

theorem eval_P (s : St) (cap : Nat) (h : P s) : P (eval s cap).1 := by
  rcases eval_cases s cap with ⟨he, _⟩ | ⟨he, _⟩ | ⟨he, _⟩ | ⟨_, hs, _⟩
  · rw [he]; exact h
  · rw [he]
    unfold P take
    simp only [List.append_assoc, List.take_append_drop]
    exact h
  · rw [he]; exact h
  · rw [hs]; exact h

theorem wake_P (s : St) (h : P s) : P (wake s).1 := by
  unfold wake
  cases hp : s.pending with
  | none => exact h
  | some cap =>
    simp only
    have key := eval_P s cap h
    cases hev : eval s cap with
    | mk s' o =>
      rw [hev] at key
      cases o <;> exact key

theorem fire_P (s : St) (t : Nat) (h : P s) : P (fire s t).1 := by
  unfold fire
  cases s.timer with
  | none => exact h
  | some f =>
    simp only
    split
    · exact wake_P _ h
    · exact h

theorem step_P (s : St) (op : Op) (h : P s) : P (step s op).1 := by
  cases op with
  | w d =>
    simp only [step]
    split
    · exact h
    · apply wake_P
      unfold P at h ⊢
      simp only [← List.append_assoc, h]
  | r cap =>
    simp only [step]
    cases hp : s.pending with
    | some _ => exact h
    | none =>
      simp only
      have key := eval_P s cap h
      cases hev : eval s cap with
      | mk s' o =>
        rw [hev] at key
        cases o <;> exact key
  | c => simp only [step]; exact wake_P _ h
  | dl a => simp only [step]; exact wake_P _ h
  | adv dt => simp only [step]; exact fire_P _ _ (fire_P _ _ h)

/-- **C01 with read deadlines.**  After ANY sequence of writes, reads of any size — returning at once, timing out, or parking
and being woken later by a write, a close, a new deadline or the timer —, closes, deadline changes and passages of time:
bytes returned so far ++ bytes still buffered = the bytes the pipe accepted, in order. -/
theorem c01_deadline_prefix (ops : List Op) : (run ops).out ++ (run ops).buf = (run ops).acc := by
  have : ∀ (ops : List Op) (s : St), P s → P (ops.foldl (fun s op => (step s op).1) s) := by
    intro ops
    induction ops with
    | nil => intro s h; exact h
    | cons op r ih => intro s h; exact ih _ (step_P s op h)
  exact this ops init rfl

/-! ## nothing stays parked past its deadline -/

def Inv (s : St) : Prop :=
  (∀ cap d, s.pending = some cap → s.deadline = some d → s.timer = some d ∧ s.now < d) ∧
  (∀ cap, s.pending = some cap → s.buf = [] ∧ s.closed = false) ∧
  (∀ f, s.timer = some f → s.now < f)

theorem inv_init : Inv init := by
  refine ⟨?_, ?_, ?_⟩ <;> intros <;> simp_all [init]

theorem wake_now (s : St) : (wake s).1.now = s.now := by
  unfold wake
  cases hp : s.pending with
  | none => rfl
  | some cap =>
    simp only
    rcases eval_cases s cap with ⟨he, _⟩ | ⟨he, _⟩ | ⟨he, _⟩ | ⟨hpk, hs, _⟩
    · rw [he]
    · rw [he]; simp only [take]
    · rw [he]
    · cases hev : eval s cap with
      | mk s' o =>
        have ho : o = .park := by rw [hev] at hpk; exact hpk
        have hs' : s' = { s with timer := (match s.deadline with | some d => some d | none => s.timer) } := by
          rw [hev] at hs; exact hs
        subst ho; subst hs'; rfl

theorem wake_inv (s : St) (ht : ∀ f, s.timer = some f → s.now < f) : Inv (wake s).1 := by
  unfold wake
  cases hp : s.pending with
  | none =>
    refine ⟨?_, ?_, ht⟩
    · intro cap d h; rw [hp] at h; cases h
    · intro cap h; rw [hp] at h; cases h
  | some cap =>
    simp only
    rcases eval_cases s cap with ⟨he, _⟩ | ⟨he, _⟩ | ⟨he, _⟩ | ⟨hpk, hs, hb, hcl, hlt⟩
    · rw [he]
      simp only
      refine ⟨?_, ?_, ht⟩
      · intro c d h; cases h
      · intro c h; cases h
    · rw [he]
      simp only [take]
      refine ⟨?_, ?_, ht⟩
      · intro c d h; cases h
      · intro c h; cases h
    · rw [he]
      simp only
      refine ⟨?_, ?_, ht⟩
      · intro c d h; cases h
      · intro c h; cases h
    · cases hev : eval s cap with
      | mk s' o =>
        have ho : o = .park := by rw [hev] at hpk; exact hpk
        have hs' : s' = { s with timer := (match s.deadline with | some d => some d | none => s.timer) } := by
          rw [hev] at hs; exact hs
        subst ho
        simp only
        subst hs'
        refine ⟨?_, ?_, ?_⟩
        · intro c d hc hdl
          simp only at hc hdl ⊢
          rw [hdl]
          exact ⟨rfl, hlt d hdl⟩
        · intro c hc
          exact ⟨hb, hcl⟩
        · intro f hf
          simp only at hf ⊢
          cases hdl : s.deadline with
          | some d => rw [hdl] at hf; injection hf with hf; subst hf; exact hlt d hdl
          | none => rw [hdl] at hf; exact ht f hf

theorem fire_inv (s : St) (t : Nat) (h : Inv s) : Inv (fire s t).1 := by
  unfold fire
  cases htm : s.timer with
  | none => simpa using h
  | some f =>
    simp only
    by_cases hf : f ≤ t
    · rw [if_pos hf]
      apply wake_inv
      intro f' hf'; cases hf'
    · rw [if_neg hf]; exact h

theorem fire_beyond (s : St) (t : Nat) (h : Inv s) :
    (∀ f, (fire s t).1.timer = some f → t < f) ∧ (fire s t).1.now ≤ max s.now t := by
  obtain ⟨buf, closed, now, deadline, timer, pending, out, acc⟩ := s
  unfold fire
  cases timer with
  | none => exact ⟨(by intro f hf; cases hf), Nat.le_max_left _ _⟩
  | some f =>
    simp only
    by_cases hf : f ≤ t
    · rw [if_pos hf]
      generalize hs0 : St.mk buf closed (max now f) deadline none pending out acc = s0
      have hnow : (wake s0).1.now = max now f := by rw [wake_now]; subst hs0; rfl
      refine ⟨?_, by rw [hnow]; omega⟩
      intro f' hf'
      cases pending with
      | none => subst hs0; simp [wake] at hf'
      | some cap =>
        have hp0 : s0.pending = some cap := by subst hs0; rfl
        unfold wake at hf'
        rw [hp0] at hf'
        simp only at hf'
        rcases eval_cases s0 cap with ⟨he, _⟩ | ⟨he, _⟩ | ⟨he, _⟩ | ⟨hpk, hs, _, _, hlt⟩
        · rw [he] at hf'; subst hs0; simp at hf'
        · rw [he] at hf'; subst hs0; simp [take] at hf'
        · rw [he] at hf'; subst hs0; simp at hf'
        · cases hev : eval s0 cap with
          | mk s' o =>
            rw [hev] at hpk hs hf'
            simp only at hpk hs hf'
            subst hpk
            simp only at hf'
            rw [hs] at hf'
            subst hs0
            simp only at hf' hlt
            cases deadline with
            | none => simp at hf'
            | some d =>
              simp only at hf'
              injection hf' with hf'
              have hd := (h.1 cap d rfl rfl).1
              simp only at hd
              injection hd with hd
              have := hlt d rfl
              omega
    · rw [if_neg hf]
      refine ⟨?_, Nat.le_max_left _ _⟩
      intro f' hf'; simp only at hf'; injection hf' with hf'; omega

theorem step_inv (s : St) (op : Op) (h : Inv s) : Inv (step s op).1 := by
  cases op with
  | w d =>
    simp only [step]
    split
    · exact h
    · exact wake_inv _ h.2.2
  | r cap =>
    simp only [step]
    cases hp : s.pending with
    | some _ => exact h
    | none =>
      simp only
      rcases eval_cases s cap with ⟨he, _⟩ | ⟨he, _⟩ | ⟨he, _⟩ | ⟨hpk, hs, hb, hcl, hlt⟩
      · rw [he]
        simp only
        refine ⟨?_, ?_, h.2.2⟩
        · intro c d hc; rw [hp] at hc; cases hc
        · intro c hc; rw [hp] at hc; cases hc
      · rw [he]
        simp only [take]
        refine ⟨?_, ?_, h.2.2⟩
        · intro c d hc; simp only at hc; rw [hp] at hc; cases hc
        · intro c hc; simp only at hc; rw [hp] at hc; cases hc
      · rw [he]
        simp only
        refine ⟨?_, ?_, h.2.2⟩
        · intro c d hc; rw [hp] at hc; cases hc
        · intro c hc; rw [hp] at hc; cases hc
      · cases hev : eval s cap with
        | mk s' o =>
          have ho : o = .park := by rw [hev] at hpk; exact hpk
          rw [hev] at hs
          subst ho
          simp only at hs ⊢
          subst hs
          refine ⟨?_, ?_, ?_⟩
          · intro c d hc hdl
            simp only at hc hdl ⊢
            rw [hdl]; exact ⟨rfl, hlt d hdl⟩
          · intro c hc
            exact ⟨hb, hcl⟩
          · intro f hf
            simp only at hf ⊢
            cases hdl : s.deadline with
            | some d => rw [hdl] at hf; injection hf with hf; subst hf; exact hlt d hdl
            | none => rw [hdl] at hf; exact h.2.2 f hf
  | c => simp only [step]; exact wake_inv _ h.2.2
  | dl a => simp only [step]; exact wake_inv _ h.2.2
  | adv dt =>
    simp only [step]
    have h1 := fire_inv s (s.now + dt) h
    have h2 := fire_inv (fire s (s.now + dt)).1 (s.now + dt) h1
    have b2 := fire_beyond (fire s (s.now + dt)).1 (s.now + dt) h1
    refine ⟨?_, ?_, ?_⟩
    · intro c d hc hdl
      simp only at hc hdl ⊢
      obtain ⟨ht, _⟩ := h2.1 c d hc hdl
      exact ⟨ht, b2.1 d ht⟩
    · intro c hc
      simp only at hc ⊢
      exact h2.2.1 c hc
    · intro f hf
      simp only at hf ⊢
      exact b2.1 f hf

theorem run_inv (ops : List Op) : Inv (run ops) := by
  have : ∀ (ops : List Op) (s : St), Inv s → Inv (ops.foldl (fun s op => (step s op).1) s) := by
    intro ops
    induction ops with
    | nil => intro s h; exact h
    | cons op r ih => intro s h; exact ih _ (step_inv s op h)
  exact this ops init inv_init

/-- **Nothing stays parked past its deadline** (ordered streams): in every reachable state a reader parked while a deadline
`d` is set has `now < d` and the timer armed for exactly `d`; and it is parked only while the pipe is open and empty. -/
theorem c01_returns_by_deadline (ops : List Op) (cap d : Nat)
    (hp : (run ops).pending = some cap) (hd : (run ops).deadline = some d) :
    (run ops).now < d ∧ (run ops).timer = some d ∧ (run ops).buf = [] ∧ (run ops).closed = false := by
  obtain ⟨ht, hlt⟩ := (run_inv ops).1 cap d hp hd
  obtain ⟨hb, hc⟩ := (run_inv ops).2.1 cap hp
  exact ⟨hlt, ht, hb, hc⟩

/-! ### non-vacuity -/

example :
    let ops := [Op.w [1, 2, 3], .dl (some 100), .r 2, .adv 150, .r 5, .dl (some 300), .r 5, .r 5, .w [9], .r 1, .adv 200]
    (run ops).out = [1, 2, 3, 9] ∧ (run ops).acc = [1, 2, 3, 9] ∧ (run ops).pending = none ∧
    ((step (run (ops.take 4)) (.r 5)).2.r = some .timeout) ∧
    ((step (run (ops.take 7)) (.r 5)).2.r = some .park) ∧
    ((step (run (ops.take 8)) (.w [9])).2.woke = some (.data [9])) ∧
    ((step (run (ops.take 10)) (.adv 200)).2.woke = some .timeout) := by
  decide

example :
    let ops := [Op.dl (some 300), .adv 150, .r 5]
    (run ops).pending = some 5 ∧ (run ops).deadline = some 300 ∧ (run ops).timer = some 300 := by decide

end C01D

#print axioms C01D.c01_deadline_prefix
#print axioms C01D.c01_returns_by_deadline
#print axioms C01D.sp_no_deadline_is_plain
#print axioms C01D.sp_timeout_sound
