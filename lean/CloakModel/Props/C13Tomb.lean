import CloakModel.Props.C13
import CloakModel.Gen.Tomb

/-! # C13: the ids of the streams an endpoint creates are never reused

`C13.c13_nonce_unique_peer_ids` assumes `(streams.map (·.1)).Nodup`: the accepting endpoint never creates two `Stream` objects
(each numbering its frames from 0) for one id.  Here that assumption is a theorem about the stream table, from the regenerated
fact `Gen.Tomb.tombstonesPermanent` (nothing takes a closed id's mark out of the table before the session ends).

The table as a state machine: a slot is absent, live or a tombstone; `recv id` (a frame for `id` arrives:
`recvDataFromRemote`) creates a stream iff the slot is absent; `close id` (either side closes the stream: `closeStream`) turns
a live slot into a tombstone; `forget id` is what a tree WITHOUT permanent tombstones could do (take the mark out again). -/
set_option linter.unusedVariables false

namespace C13T

inductive Slot | absent | live | tomb deriving DecidableEq, Repr

structure Tbl where
  slot : Nat → Slot
  created : List Nat      -- ids for which a Stream object was made, in order (each numbers its frames from 0)

def init : Tbl := ⟨fun _ => .absent, []⟩

inductive Ev | recv (id : Nat) | close (id : Nat) | forget (id : Nat)

def upd (f : Nat → Slot) (id : Nat) (v : Slot) : Nat → Slot := fun k => if k = id then v else f k

def step (permanent : Bool) (t : Tbl) : Ev → Tbl
  | .recv id => match t.slot id with
    | .absent => ⟨upd t.slot id .live, t.created ++ [id]⟩
    | _ => t                                  -- live: the frame goes to the existing stream; tombstone: dropped
  | .close id => match t.slot id with
    | .live => { t with slot := upd t.slot id .tomb }
    | _ => t
  | .forget id =>
    if permanent then t
    else match t.slot id with
      | .tomb => { t with slot := upd t.slot id .absent }
      | _ => t

def run (permanent : Bool) (evs : List Ev) : Tbl := evs.foldl (step permanent) init

theorem gen_tombstones : Gen.Tomb.tombstonesPermanent = true ∧ Gen.Tomb.streamTableDeletes = 1 := by decide

def Inv (t : Tbl) : Prop := (∀ id ∈ t.created, t.slot id ≠ .absent) ∧ t.created.Nodup

theorem step_inv (t : Tbl) (e : Ev) (h : Inv t) : Inv (step true t e) := by
  obtain ⟨h1, h2⟩ := h
  cases e with
  | recv id =>
    simp only [step]
    cases hs : t.slot id with
    | absent =>
      simp only
      refine ⟨?_, ?_⟩
      · intro k hk
        simp only [upd]
        by_cases hki : k = id
        · simp [hki]
        · simp only [hki, if_false]
          rw [List.mem_append] at hk
          rcases hk with hk | hk
          · exact h1 k hk
          · simp at hk; exact absurd hk hki
      · rw [List.nodup_append]
        refine ⟨h2, by simp, ?_⟩
        intro a ha b hb
        simp at hb
        subst hb
        intro hab
        subst hab
        exact h1 a ha hs
    | live => exact ⟨h1, h2⟩
    | tomb => exact ⟨h1, h2⟩
  | close id =>
    simp only [step]
    cases hs : t.slot id with
    | live =>
      simp only
      refine ⟨?_, h2⟩
      intro k hk
      simp only [upd]
      by_cases hki : k = id
      · simp [hki]
      · simp only [hki, if_false]; exact h1 k hk
    | absent => exact ⟨h1, h2⟩
    | tomb => exact ⟨h1, h2⟩
  | forget id => exact ⟨h1, h2⟩

/-- **The ids of the streams an endpoint creates are pairwise distinct** — for every history of arriving frames and closes, on
a tree whose closed-id marks are permanent: the hypothesis `hids` of `C13.c13_nonce_unique_peer_ids` -/
theorem c13_ids_never_reused (evs : List Ev) : (run Gen.Tomb.tombstonesPermanent evs).created.Nodup := by
  rw [gen_tombstones.1]
  have : ∀ (evs : List Ev) (t : Tbl), Inv t → Inv (evs.foldl (step true) t) := by
    intro evs
    induction evs with
    | nil => intro t h; exact h
    | cons e r ih => intro t h; exact ih _ (step_inv t e h)
  exact (this evs init ⟨(by intro id h; cases h), List.nodup_nil⟩).2

/-- without permanent marks the statement is false: frame, close, forget, late frame — stream 1 is made twice (seed C13-5) -/
theorem c13_forgetful_witness : ¬ (run false [.recv 1, .close 1, .forget 1, .recv 1]).created.Nodup := by decide

/-- non-vacuity: frames for 1 and 2, 1 closed, a late frame for 1 is dropped, 3 arrives -/
example : (run Gen.Tomb.tombstonesPermanent [.recv 1, .recv 2, .close 1, .forget 1, .recv 1, .recv 3]).created = [1, 2, 3] := by decide

end C13T

#print axioms C13T.c13_ids_never_reused
