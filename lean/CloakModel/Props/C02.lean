import CloakModel.Model.ReorderBuf
import CloakModel.Lemmas.ReorderCore

/-! # C02 — Stream reassembly is independent of the order in which frames arrive

(1) bridging lemmas turning the *extracted* branch conditions (`Gen.Reorder.*`) into the
mathematical conditions — these are the obligations that break when the Go conditions change;
(2) simulation between the executable model `RB.*` (what the driver runs against the Go code) and
the specification-level buffer `C02.*` of `Lemmas/ReorderCore.lean`; (3) the property theorems. -/
set_option linter.unusedSimpArgs false

namespace C02
open RB (Frame Out W ins)

/-! ## 1. Extracted conditions mean what the proof needs -/

theorem gen_fast (h s n : Nat) : Gen.Reorder.sbFast (h : Int) (s : Int) (n : Int) = true ↔ (h = 0 ∧ s = n) := by
  unfold Gen.Reorder.sbFast
  simp only [Bool.and_eq_true, Bool.or_eq_true, Bool.not_eq_true', decide_eq_true_eq, decide_eq_false_iff_not]
  omega

theorem gen_stale (s n : Nat) : Gen.Reorder.sbStale (s : Int) (n : Int) = true ↔ s < n := by
  unfold Gen.Reorder.sbStale
  simp only [Bool.and_eq_true, Bool.or_eq_true, Bool.not_eq_true', decide_eq_true_eq, decide_eq_false_iff_not]
  omega

theorem gen_loop (h s n : Nat) : Gen.Reorder.sbLoop (h : Int) (s : Int) (n : Int) = true ↔ (0 < h ∧ s = n) := by
  unfold Gen.Reorder.sbLoop
  simp only [Bool.and_eq_true, Bool.or_eq_true, Bool.not_eq_true', decide_eq_true_eq, decide_eq_false_iff_not]
  omega

/-- structural facts of `streamBuffer.Write` the model relies on: both paths test the closing flag,
both advance `nextRecvSeq` exactly once per pipe write, the parked payload is copied before it is
pushed, and the whole body runs under `recvM`. -/
theorem gen_structure :
    Gen.Reorder.sbClosingTests = 2 ∧ Gen.Reorder.sbNextIncrs = 2 ∧ Gen.Reorder.sbPipeWrites = 2 ∧
    Gen.Reorder.sbCopiesBeforePush = true ∧ Gen.Reorder.sbWriteLocked = true := by decide

/-! ## 2. Simulation: the executable model, while the pipe is open, is the specification buffer -/

def core (sb : RB.SB) : RC.SB := ⟨sb.next, sb.heap, sb.buf, sb.out⟩
def lift (s : RC.SB) : RB.SB := ⟨s.next, s.heap, s.buf, s.out, false⟩

theorem fast_eq (heap : List Frame) (s n : Nat) :
    Gen.Reorder.sbFast (heap.length : Nat) s n = decide (heap = [] ∧ s = n) := by
  rw [Bool.eq_iff_iff, gen_fast]; simp

theorem stale_eq (s n : Nat) : Gen.Reorder.sbStale (s : Nat) n = decide (s < n) := by
  rw [Bool.eq_iff_iff, gen_stale]; simp

theorem loop_eq (g : Frame) (gs : List Frame) (n : Nat) :
    Gen.Reorder.sbLoop ((g :: gs).length : Nat) g.seq n = decide (g.seq = n) := by
  rw [Bool.eq_iff_iff, gen_loop]; simp

theorem drain_sim (h : List Frame) : ∀ (next : Nat) (buf out : Bytes),
    RB.drain false next buf out h = (lift (RC.drain next buf out h).1, (RC.drain next buf out h).2) := by
  induction h with
  | nil => intro next buf out; simp [RB.drain, RC.drain, lift]
  | cons g gs ih =>
    intro next buf out
    unfold RB.drain RC.drain
    rw [loop_eq]
    by_cases hs : g.seq = next
    · by_cases hc : g.closing = true
      · simp [hs, hc, lift]
      · simp only [hs, hc, decide_true, if_true, if_false, Bool.false_eq_true]
        simpa [RB.pipeAppend] using ih ((next + 1) % W) (buf ++ g.payload) out
    · simp [hs, lift]

theorem rc_write_slow (s : RC.SB) (f : Frame) (h1 : ¬(s.heap = [] ∧ f.seq = s.next)) (h2 : ¬ f.seq < s.next) :
    RC.write s f = RC.drain s.next s.buf s.out (ins f s.heap) := by
  unfold RC.write; rw [if_neg h1, if_neg h2]

theorem write_sim (sb : RB.SB) (f : Frame) (ho : sb.closed = false) :
    RB.write sb f = (lift (RC.write (core sb) f).1, (RC.write (core sb) f).2) := by
  obtain ⟨next, heap, buf, out, closed⟩ := sb
  simp only at ho; subst ho
  unfold RB.write
  rw [fast_eq, stale_eq]
  simp only [decide_eq_true_eq]
  by_cases hfast : heap = [] ∧ f.seq = next
  · by_cases hc : f.closing = true
    · simp [RC.write, core, hfast, hc, lift]
    · simp [RC.write, core, hfast, hc, lift, RB.pipeAppend]
  · by_cases hold : f.seq < next
    · simp [RC.write, core, hfast, hold, lift]
    · rw [rc_write_slow (core ⟨next, heap, buf, out, false⟩) f hfast hold, if_neg hfast, if_neg hold]
      exact drain_sim _ _ _ _

theorem write_open (sb : RB.SB) (f : Frame) (ho : sb.closed = false) : (RB.write sb f).1.closed = false := by
  rw [write_sim sb f ho]; rfl

theorem read_sim (sb : RB.SB) (k : Nat) (ho : sb.closed = false) :
    (RB.read sb k).1 = lift (RC.read (core sb) k) := by
  obtain ⟨next, heap, buf, out, closed⟩ := sb
  simp only at ho; subst ho
  unfold RB.read RC.read
  by_cases hb : buf = []
  · simp [hb, core, lift]
  · simp [hb, core, lift]

/-! ## 3. The property, about the executable model -/

/-- operations of a test script / of the environment: a frame arrives, or the application reads `k` bytes -/
inductive Op | write (f : Frame) | read (k : Nat)

def step (s : RB.SB × List Out) : Op → RB.SB × List Out
  | .write f => ((RB.write s.1 f).1, s.2 ++ [(RB.write s.1 f).2])
  | .read k  => ((RB.read s.1 k).1, s.2)

def run (ops : List Op) : RB.SB × List Out := ops.foldl step (RB.init 0, [])

def toCore : Op → RC.Op
  | .write f => .write f
  | .read k => .read k

theorem run_sim : ∀ (ops : List Op) (s : RB.SB × List Out), s.1.closed = false →
    ops.foldl step s = (lift ((ops.map toCore).foldl RC.step (core s.1, s.2)).1,
                        ((ops.map toCore).foldl RC.step (core s.1, s.2)).2) := by
  intro ops
  induction ops with
  | nil => intro s ho; obtain ⟨⟨n, h, b, o, c⟩, l⟩ := s; simp at ho; subst ho; simp [lift, core]
  | cons op rest ih =>
    intro s ho
    simp only [List.foldl_cons, List.map_cons]
    cases op with
    | write f =>
      have hs : step s (.write f) = (lift (RC.write (core s.1) f).1, s.2 ++ [(RC.write (core s.1) f).2]) := by
        simp only [step]; rw [write_sim s.1 f ho]
      rw [hs, ih _ (by rfl)]
      simp [toCore, RC.step, core, lift]
    | read k =>
      have hs : step s (.read k) = (lift (RC.read (core s.1) k), s.2) := by
        simp only [step]; rw [read_sim s.1 k ho]
      rw [hs, ih _ (by rfl)]
      simp [toCore, RC.step, core, lift]

def writesOf' : List Op → List Frame
  | [] => []
  | .write f :: r => f :: writesOf' r
  | .read _ :: r => writesOf' r

theorem writesOf_map (ops : List Op) : RC.writesOf (ops.map toCore) = writesOf' ops := by
  induction ops with
  | nil => rfl
  | cons op r ih => cases op <;> simp [toCore, RC.writesOf, writesOf', ih]

/-- **C02 (reassembly).** Frames numbered `0..n-1` (`n < 2^64`; the one numbered `c`, if `c < n`,
carries the closing flag; payloads arbitrary) are delivered to the executable reorder-buffer model
exactly once each in ANY order, with application reads of any sizes interleaved anywhere.  Then
everything read so far followed by everything still buffered is the in-order concatenation of the
payloads up to the closing frame; no write is rejected; and the close is reported exactly once iff
there is a closing frame. -/
theorem c02_reassembly (pl : Nat → Bytes) (c n : Nat) (hn : n < W) (ops : List Op)
    (hperm : ((writesOf' ops).map (·.seq)).Perm (List.range n))
    (hfr : ∀ f ∈ writesOf' ops, f = RC.fr pl c f.seq) :
    let r := run ops
    r.1.out ++ r.1.buf = RC.prefixData pl (min n c) ∧
    Out.errOld ∉ r.2 ∧
    RC.closes r.2 = (if c < n then 1 else 0) := by
  have h := RC.c02_reassembly pl c n hn (ops.map toCore)
    (by rw [writesOf_map]; exact hperm) (by rw [writesOf_map]; exact hfr)
  have hs := run_sim ops (RB.init 0, []) rfl
  simp only at h
  show (run ops).1.out ++ (run ops).1.buf = _ ∧ _ ∧ _
  unfold run; rw [hs]
  simpa [lift, core, RB.init, RC.run] using h

/-- **C02 (intermediate states).** At every moment of any duplicate-free arrival sequence (not
yet closed) the pipe holds exactly the in-order prefix: bytes read ++ bytes buffered =
`prefixData next`, i.e. nothing is delivered out of order, early, or twice.  This is the `Phase`
invariant of `Lemmas/ReorderCore.lean`, re-exported for the executable model. -/
theorem c02_prefix_always (pl : Nat → Bytes) (c n : Nat) (hn : n < W) (ops : List Op)
    (hnd : ((writesOf' ops).map (·.seq)).Nodup)
    (hfr : ∀ f ∈ writesOf' ops, f = RC.fr pl c f.seq ∧ f.seq < n) :
    let r := run ops
    ∃ m, m ≤ n ∧ r.1.out ++ r.1.buf = RC.prefixData pl m ∧ Out.errOld ∉ r.2 := by
  have h0 : RC.Phase pl c n [] (⟨0, [], [], []⟩, []) := by
    refine ⟨by simp, Or.inl ⟨⟨by simp [RC.prefixData], by simp, by simp, by simp, by simp, by simp, by simp⟩, by simp [RC.closes]⟩⟩
  have hfin := RC.run_phase pl c n hn (ops.map toCore) [] _ h0 (by simp)
    (by rw [writesOf_map]; intro f hf; exact ⟨(hfr f hf).1, (hfr f hf).2, by simp⟩)
    (by rw [writesOf_map]; exact hnd)
  have hs := run_sim ops (RB.init 0, []) rfl
  show ∃ m, m ≤ n ∧ (run ops).1.out ++ (run ops).1.buf = _ ∧ _
  unfold run; rw [hs]
  simp only [lift, core, RB.init]
  rcases hfin.2 with ⟨hinv, _⟩ | ⟨hcl, _⟩
  · exact ⟨_, hinv.bound, hinv.data, hfin.1⟩
  · refine ⟨c, ?_, hcl.data, hfin.1⟩
    have hc := hcl.cin
    simp only [List.append_nil, List.mem_reverse, List.mem_map] at hc
    obtain ⟨f, hf, hfc⟩ := hc
    rw [writesOf_map] at hf
    have := (hfr f hf).2; omega

/-- non-vacuity: three frames arriving as 2,0,1 with a read in between satisfy the hypotheses and
the model really delivers `[10,11,12]` -/
example :
    let pl : Nat → Bytes := fun i => [UInt8.ofNat (10 + i)]
    let ops := [Op.write (RC.fr pl 7 2), .write (RC.fr pl 7 0), .read 1, .write (RC.fr pl 7 1)]
    ((writesOf' ops).map (·.seq)).Perm (List.range 3) ∧ (run ops).1.out ++ (run ops).1.buf = [10, 11, 12] := by
  refine ⟨?_, by decide⟩
  decide

end C02

#print axioms C02.c02_reassembly
#print axioms C02.c02_prefix_always
#print axioms C02.gen_structure
