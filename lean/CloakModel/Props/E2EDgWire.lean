import CloakModel.Props.E2EDg
import CloakModel.Props.E2EWire

/-! # Datagram mode end to end, from the bytes on each connection (C05 ∘ C04 ∘ C14)

`Props/E2EDg.lean` starts at whole wire messages.  Here the starting point is what a TCP connection really carries: on every
underlying connection the sending endpoint wrote its messages one `TLSConn.Write` each (`Rec.record`), the byte stream
reaches the receiver cut into ANY segments, that connection's receive loop (`switchboard.deplex`) reads record after record
(`Rec.readAll`) and hands every whole one to the session (`recvDataFromRemote` = `E2EDg.recvMsg`: decode, look the stream
up, write into its datagram pipe); the loops of the different connections, the applications' reads and local closes
interleave in any global order.  `E2E.conn_handed` (from `c05_roundtrip`): each loop hands over exactly the messages written
on its connection; `labelled` (from `c04_roundtrip`): each decodes to the frame it was made from;
`c14_end_to_end_bytes(_isolation)` reduce to `E2EDg.c14_end_to_end(_isolation)`; `c14_one_conn_order`: with one connection
the datagrams of a stream come out in the order they were SENT. -/
set_option linter.unusedVariables false

namespace E2EDg
open DG Codec Rec

/-- what happens at the receiving endpoint, as the receiver sees it -/
inductive REv
  | got (conn : Nat) (m : Bytes)
  | read (sid cap : Nat)
  | close (sid : Nat)

def rstep (C : Crypto) (key : Bytes) (t : Tbl) : REv → Tbl
  | .got _ m => recvMsg C key t m
  | .read sid cap => C14.gstep t ⟨sid, .r cap, false⟩
  | .close sid => C14.gstep t ⟨sid, .c, false⟩

def onConn (c : Nat) : REv → Option Bytes
  | .got c' m => if c' = c then some m else none
  | _ => none

/-- the frame a received message stands for (what `deobfuscate` makes of it); the second branch is never taken for a
message the peer made (`label_enc`) -/
def label (C : Crypto) (key : Bytes) : REv → NEv
  | .got _ m =>
    match deobfuscate C key m with
    | .ok fr => .msg fr.sid fr.seq fr.closing fr.payload m
    | _ => .read 0 0
  | .read sid cap => .read sid cap
  | .close sid => .close sid

/-- what the sending endpoint put on a connection: the wire message `m` made from the frame `(sid, seq, closing, d)` -/
structure Sent where
  sid : Nat
  seq : Nat
  closing : UInt8
  d : Bytes
  m : Bytes

theorem label_enc (C : Crypto) (hL : Lawful C) (key : Bytes) (c sid seq : Nat) (closing : UInt8) (d m : Bytes)
    (h : IsEnc C key sid seq closing d m) : label C key (.got c m) = .msg sid seq closing d m := by
  obtain ⟨bufLen, padDraw, rnd, hsid, hseq, hpl, hdraw, hrnd, hbuf, hobf⟩ := h
  obtain ⟨msg, hm, hd⟩ := C04.c04_roundtrip C hL key ⟨sid, seq, closing, d⟩ bufLen padDraw rnd hsid hseq hpl hdraw hrnd hbuf
  rw [hobf] at hm
  injection hm with hm
  subst hm
  show (match deobfuscate C key m with
    | .ok fr => NEv.msg fr.sid fr.seq fr.closing fr.payload m
    | _ => NEv.read 0 0) = _
  rw [hd]

theorem labelled (C : Crypto) (hL : Lawful C) (key : Bytes) : ∀ (revs : List REv) (t : Tbl),
    (∀ c m, REv.got c m ∈ revs → ∃ sid seq closing d, IsEnc C key sid seq closing d m) →
    revs.foldl (rstep C key) t = (revs.map (label C key)).foldl (recvStep C key) t ∧
    ∀ e ∈ revs.map (label C key), e.ok C key := by
  intro revs
  induction revs with
  | nil => intro t _; exact ⟨rfl, by simp⟩
  | cons e r ih =>
    intro t h
    have hr : ∀ c m, REv.got c m ∈ r → ∃ sid seq closing d, IsEnc C key sid seq closing d m :=
      fun c m hm => h c m (by simp [hm])
    have hstep : rstep C key t e = recvStep C key t (label C key e) ∧ (label C key e).ok C key := by
      cases e with
      | got c m =>
        obtain ⟨sid, seq, closing, d, henc⟩ := h c m (by simp)
        rw [label_enc C hL key c sid seq closing d m henc]
        exact ⟨rfl, henc⟩
      | read sid k => exact ⟨rfl, trivial⟩
      | close sid => exact ⟨rfl, trivial⟩
    obtain ⟨ih1, ih2⟩ := ih (rstep C key t e) hr
    refine ⟨?_, ?_⟩
    · simp only [List.foldl_cons, List.map_cons]
      rw [ih1, hstep.1]
    · intro x hx
      simp only [List.map_cons, List.mem_cons] at hx
      rcases hx with hx | hx
      · rw [hx]; exact hstep.2
      · exact ih2 x hx

/-- the per-connection hypotheses: what was sent on connection `c`, how its bytes were cut, which buffers its loop read
with, and that the events of `c` in the global run are what that loop handed over, in order -/
structure Wire (C : Crypto) (key : Bytes) (revs : List REv) where
  sent : Nat → List Sent
  bufs : Nat → List Nat
  cs : Nat → Chunks
  tail : Nat → Bytes
  genuine : ∀ c, ∀ s ∈ sent c, IsEnc C key s.sid s.seq s.closing s.d s.m
  fits : ∀ c, C05.Fits ((sent c).map (·.m)) (bufs c)
  bytes : ∀ c, (cs c).flatten = (((sent c).map (·.m)).map record).flatten ++ tail c
  loop : ∀ c, revs.filterMap (onConn c) = E2E.handedOver (readAll (bufs c) (cs c))

theorem wire_handed (C : Crypto) (key : Bytes) (revs : List REv) (w : Wire C key revs) (c : Nat) :
    revs.filterMap (onConn c) = (w.sent c).map (·.m) := by
  rw [w.loop c, E2E.conn_handed _ _ _ _ (w.fits c) (w.bytes c)]

theorem wire_genuine (C : Crypto) (key : Bytes) (revs : List REv) (w : Wire C key revs) :
    ∀ c m, REv.got c m ∈ revs → ∃ sid seq closing d, IsEnc C key sid seq closing d m := by
  intro c m hm
  have h1 : m ∈ revs.filterMap (onConn c) := by
    rw [List.mem_filterMap]
    exact ⟨.got c m, hm, by simp [onConn]⟩
  rw [wire_handed C key revs w c, List.mem_map] at h1
  obtain ⟨s, hs, hsm⟩ := h1
  exact ⟨s.sid, s.seq, s.closing, s.d, hsm ▸ w.genuine c s hs⟩

/-- **C14 end to end from the bytes (exactly once, whole, while the stream stays open).**  Every frame of every stream was
encoded (any lawful cipher, key, sequence number, padding) and written as one record on some connection; each connection's
byte stream arrived cut into ANY segments; each receive loop read records and handed them to the session; loops, application
reads and local closes interleaved in ANY global order.  If nothing closes stream `sid`, then whenever it exists its pipe
is open and what its reads returned followed by what it still queues is exactly the list of datagrams sent on `sid`, in
the order the loops handed them over — each once, whole, unmixed. -/
theorem c14_end_to_end_bytes (C : Crypto) (hL : Lawful C) (key : Bytes) (sid : Nat) (revs : List REv) (w : Wire C key revs)
    (hopen : ∀ e ∈ revs.map (label C key), KeepsOpen sid e) :
    ∀ s, (revs.foldl (rstep C key) (fun _ => none)) sid = some s →
      s.p.closed = false ∧
      ∃ q, C14.dataOf s.outs ++ q = sentTo sid (revs.map (label C key)) ∧ s.p.lens = q.map List.length ∧ s.p.buf = q.flatten := by
  intro s hs
  obtain ⟨h1, h2⟩ := labelled C hL key revs (fun _ => none) (wire_genuine C key revs w)
  rw [h1] at hs
  exact c14_end_to_end C hL key sid _ h2 hopen s hs

/-- **C14 end to end from the bytes (isolation, every reachable state, closes included).** -/
theorem c14_end_to_end_bytes_isolation (C : Crypto) (hL : Lawful C) (key : Bytes) (sid : Nat) (revs : List REv)
    (w : Wire C key revs) :
    ∀ s, (revs.foldl (rstep C key) (fun _ => none)) sid = some s →
      (∃ q, C14.dataOf s.outs ++ q = s.acc ∧ s.p.lens = q.map List.length ∧ s.p.buf = q.flatten) ∧
      s.acc.Sublist (sentTo sid (revs.map (label C key))) := by
  intro s hs
  obtain ⟨h1, h2⟩ := labelled C hL key revs (fun _ => none) (wire_genuine C key revs w)
  rw [h1] at hs
  exact c14_end_to_end_isolation C hL key sid _ h2 s hs

/-! ### one connection: arrival order is sending order -/

/-- the datagrams of stream `sid` among what was sent on a connection, in sending order -/
def sentOn (sid : Nat) : List Sent → List Bytes
  | [] => []
  | s :: r => if s.sid = sid then s.d :: sentOn sid r else sentOn sid r

/-- `sentTo` depends only on the messages handed over, and for genuine ones it is the sender's list -/
theorem sentTo_of_handed (C : Crypto) (hL : Lawful C) (key : Bytes) (sid c : Nat) :
    ∀ (revs : List REv) (ss : List Sent),
      (∀ c' m, REv.got c' m ∈ revs → c' = c) →
      revs.filterMap (onConn c) = ss.map (·.m) →
      (∀ s ∈ ss, IsEnc C key s.sid s.seq s.closing s.d s.m) →
      sentTo sid (revs.map (label C key)) = sentOn sid ss := by
  intro revs
  induction revs with
  | nil =>
    intro ss _ hh _
    cases ss with
    | nil => rfl
    | cons s r => simp at hh
  | cons e r ih =>
    intro ss hc hh hg
    cases e with
    | got c' m =>
      have hcc : c' = c := hc c' m (by simp)
      subst hcc
      cases ss with
      | nil => simp [onConn] at hh
      | cons s rs =>
        simp only [List.filterMap_cons, onConn, if_true, List.map_cons, List.cons.injEq] at hh
        obtain ⟨hm, hrest⟩ := hh
        have hs := hg s (by simp)
        rw [← hm] at hs
        simp only [List.map_cons]
        rw [label_enc C hL key c' s.sid s.seq s.closing s.d m hs]
        have := ih rs (fun c'' m' hm' => hc c'' m' (by simp [hm'])) hrest (fun x hx => hg x (by simp [hx]))
        simp only [sentTo, sentOn, this]
    | read s k =>
      have hh' : r.filterMap (onConn c) = ss.map (·.m) := by
        rw [List.filterMap_cons] at hh; exact hh
      have hl : label C key (.read s k) = .read s k := rfl
      rw [List.map_cons, hl]
      show sentTo sid (r.map (label C key)) = sentOn sid ss
      exact ih ss (fun c'' m' hm' => hc c'' m' (List.mem_cons_of_mem _ hm')) hh' hg
    | close s =>
      have hh' : r.filterMap (onConn c) = ss.map (·.m) := by
        rw [List.filterMap_cons] at hh; exact hh
      have hl : label C key (.close s) = .close s := rfl
      rw [List.map_cons, hl]
      show sentTo sid (r.map (label C key)) = sentOn sid ss
      exact ih ss (fun c'' m' hm' => hc c'' m' (List.mem_cons_of_mem _ hm')) hh' hg

/-- **One connection: datagrams come out in the order they were sent.**  If every message reached the receiver over
connection `c` (one underlying connection, or a stream whose frames all travel on its assigned connection while nothing else
arrives), then — `sid` not being closed — what `sid`'s reads returned followed by what it still queues is exactly the list of
datagrams the peer wrote on `sid`, in WRITING order. -/
theorem c14_one_conn_order (C : Crypto) (hL : Lawful C) (key : Bytes) (sid c : Nat) (revs : List REv) (w : Wire C key revs)
    (hone : ∀ c' m, REv.got c' m ∈ revs → c' = c)
    (hopen : ∀ e ∈ revs.map (label C key), KeepsOpen sid e) :
    ∀ s, (revs.foldl (rstep C key) (fun _ => none)) sid = some s →
      ∃ q, C14.dataOf s.outs ++ q = sentOn sid (w.sent c) ∧ s.p.lens = q.map List.length ∧ s.p.buf = q.flatten := by
  intro s hs
  obtain ⟨_, q, hq, hl, hb⟩ := c14_end_to_end_bytes C hL key sid revs w hopen s hs
  refine ⟨q, ?_, hl, hb⟩
  rw [hq]
  exact sentTo_of_handed C hL key sid c revs (w.sent c) hone (wire_handed C key revs w c) (w.genuine c)

/-! ### the hypotheses are satisfiable

One connection, the toy AEAD cipher: two datagrams of stream 7 written as two records, the byte stream cut inside the first
record's header and across the record boundary, the loop reading with 20480-byte buffers, then two application reads. -/
namespace WitnessW
open C04 Witness

def m1 : Bytes := enc 7 0 [1, 2, 3]
def m2 : Bytes := enc 7 1 [4]
def wrevs : List REv := [.got 0 m1, .read 7 2, .got 0 m2, .read 7 3]
def stream : Bytes := record m1 ++ record m2
def wsegs : Chunks := [stream.take 3, (stream.drop 3).take 40, stream.drop 43]

theorem enc1 : IsEnc toy [] 7 0 0 [1, 2, 3] m1 := by
  refine ⟨16401, 0, rndOf 7 0 [1, 2, 3], by decide, by decide, by decide, by decide, by decide, ?_, by decide⟩
  unfold C04.fitsBuf; decide
theorem enc2 : IsEnc toy [] 7 1 0 [4] m2 := by
  refine ⟨16401, 0, rndOf 7 1 [4], by decide, by decide, by decide, by decide, by decide, ?_, by decide⟩
  unfold C04.fitsBuf; decide

def wire : Wire toy [] wrevs where
  sent := fun c => if c = 0 then [⟨7, 0, 0, [1, 2, 3], m1⟩, ⟨7, 1, 0, [4], m2⟩] else []
  bufs := fun c => if c = 0 then [20480, 20480] else []
  cs := fun c => if c = 0 then wsegs else []
  tail := fun _ => []
  genuine := by
    intro c s hs
    by_cases h : c = 0
    · simp only [h, if_true, List.mem_cons, List.mem_nil_iff, or_false] at hs
      rcases hs with hs | hs
      · subst hs; exact enc1
      · subst hs; exact enc2
    · simp [h] at hs
  fits := by
    intro c
    by_cases h : c = 0
    · simp only [h, if_true, List.map_cons, List.map_nil]
      exact .cons (by decide) (by decide) (by decide) (.cons (by decide) (by decide) (by decide) .nil)
    · simp only [h, if_false, List.map_nil]; exact .nil
  bytes := by
    intro c
    by_cases h : c = 0
    · simp only [h, if_true]; decide
    · simp [h]
  loop := by
    intro c
    by_cases h : c = 0
    · subst h
      simp only [if_true]
      rw [E2E.conn_handed [m1, m2] [20480, 20480] [] wsegs
        (.cons (by decide) (by decide) (by decide) (.cons (by decide) (by decide) (by decide) .nil)) (by decide)]
      rfl
    · have h' : ¬ (0 = c) := fun e => h e.symm
      simp [h, h', wrevs, onConn, readAll, E2E.handedOver]

/-- the run of the witness: a short read, then the first datagram whole; the second is queued -/
example : ((wrevs.foldl (rstep toy []) (fun _ => none)) 7).map (fun s => (s.outs, s.p.lens, s.p.buf)) =
    some ([.short, .data [1, 2, 3]], [1], [4]) := by decide

end WitnessW

end E2EDg

#print axioms E2EDg.c14_end_to_end_bytes
#print axioms E2EDg.c14_end_to_end_bytes_isolation
#print axioms E2EDg.c14_one_conn_order
