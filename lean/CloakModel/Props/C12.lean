import CloakModel.Model.SessionSM

/-! # C12 — Faults tear a session down cleanly: prefixes only, nothing left blocked

Theorems about the session state machine `SM` (every interleaving of atomic steps):
* `c12_count`     — `activeStreamCount = #open streams` whenever no open/close is in flight;
* `c12_teardown`  — once `closeSession`'s locked section has run: the accept queue is closed, no
                    stream is open, and it stays that way (later opens / new-stream frames are refused);
* `c12_timeout`   — the inactivity check initiates a close only from count 0, hence (no open in flight)
                    only while no stream is open;
* `c12_conns`     — after `closeAll` every pooled connection is closed.
`gen_structure` ties the step boundaries to the Go source (regenerated facts).  The reader-side
prefix clause is C02/C03's pipe theorem (`c02_prefix_always`); wake-ups of parked goroutines are
runtime behaviour checked by the harness under `testing/synctest` (partial, see DESIGN). -/
set_option linter.unusedSimpArgs false
set_option linter.unusedVariables false

namespace C12
open SM

/-- the facts of the Go source the model's step granularity rests on -/
theorem gen_structure :
    Gen.Session.openStreamCheckUnderLock = true ∧ Gen.Session.openStreamIncrs = 1 ∧
    Gen.Session.openStreamIncrAfterUnlock = true ∧
    Gen.Session.recvCheckUnderLock = true ∧ Gen.Session.recvInsertEnqueueUnderLock = true ∧
    Gen.Session.recvEnqueueNonBlocking = true ∧
    Gen.Session.recvTombstoneDrops = true ∧ Gen.Session.recvSessionCloseIsPassiveClose = true ∧
    Gen.Session.recvDecodeErrorReturnsFirst = true ∧
    Gen.Session.closeStreamCASFirst = true ∧ Gen.Session.closeStreamPipeCloseUnconditional = true ∧
    Gen.Session.closeStreamTombstoneUnderLockThenDecr = true ∧ Gen.Session.closeStreamDecrs = 1 ∧
    Gen.Session.closeStreamZeroAction = true ∧
    Gen.Session.closeSessionShape = true ∧ Gen.Session.closeSessionDecrsPerStream = 1 ∧
    Gen.Session.passiveCloseClosesAll = true ∧ Gen.Session.closeSendsNoticeThenClosesAll = true ∧
    Gen.Session.closeAllShape = true ∧ Gen.Session.deplexReadErrorPassiveCloses = true ∧
    Gen.Session.deplexContinuesAfterRecvError = true ∧ Gen.Session.deplexDefersConnClose = true ∧
    Gen.Session.timeoutCloses = true ∧ Gen.Session.acceptNilIsBroken = true := by decide

/-- the receive pipes hold a writer back (inside the stream's `recvM`) only beyond 2 GiB − 1 of unread data: below
that the hand-over of a frame to its buffer returns, which is what the teardown theorems and the lock-order theorem
assume of `sync.Cond.Wait` in `streamBufferedPipe.Write` / `datagramBufferedPipe.Write`.  (A lower limit makes the
parked receive loop reachable: seeded change `C12-3`, scenario `c12big.go`.) -/
theorem gen_pipe_limit (b : Nat) (h : b < 2^31) :
    Gen.Session.pipeWriteProceeds b = true ∧ Gen.Session.dgPipeWriteProceeds b = true ∧
    Gen.Session.recvBufferSizeLimit = 2^31 - 1 := by
  unfold Gen.Session.pipeWriteProceeds Gen.Session.dgPipeWriteProceeds Gen.Session.recvBufferSizeLimit
  refine ⟨?_, ?_, by decide⟩ <;> simp <;> omega

theorem gen_timeout (c : Int) (b : Bool) : Gen.Session.timeoutCond c b = true ↔ (c = 0 ∧ b = false) := by
  unfold Gen.Session.timeoutCond
  cases b <;> simp

/-! ## table lemmas -/

theorem nOpen_setEnt_open (id : Nat) (to : Ent) (hto : to ≠ .opn) : ∀ (t : List (Nat × Ent)),
    (setEnt id .opn to t).2 = true → nOpen (setEnt id .opn to t).1 + 1 = nOpen t := by
  intro t
  induction t with
  | nil => simp [setEnt]
  | cons x r ih =>
    obtain ⟨i, e⟩ := x
    simp only [setEnt]
    by_cases h : i = id ∧ e = .opn
    · simp only [h, and_self, if_true]
      intro _
      cases to <;> simp_all [nOpen]
    · simp only [h, if_false]
      intro hf
      have := ih hf
      cases e <;> simp_all [nOpen] <;> omega

theorem nOpen_setEnt_other (id : Nat) (frm to : Ent) (hf : frm ≠ .opn) (hto : to ≠ .opn) : ∀ (t : List (Nat × Ent)),
    nOpen (setEnt id frm to t).1 = nOpen t := by
  intro t
  induction t with
  | nil => simp [setEnt]
  | cons x r ih =>
    obtain ⟨i, e⟩ := x
    simp only [setEnt]
    by_cases h : i = id ∧ e = frm
    · simp only [h, and_self, if_true]
      cases frm <;> cases to <;> simp_all [nOpen]
    · simp only [h, if_false]
      cases e <;> simp_all [nOpen]

theorem nOpen_sweep : ∀ (t : List (Nat × Ent)), nOpen (sweepTbl t) = 0 := by
  intro t
  induction t with
  | nil => rfl
  | cons x r ih =>
    obtain ⟨i, e⟩ := x
    cases e <;> simp [sweepTbl, nOpen, ih]

/-! ## the counter -/

def CountInv (s : St) : Prop := s.count = (nOpen s.tbl : Int) + s.pendDecr - s.pendIncr

theorem insertOpen_count (s : St) (h : CountInv s) : CountInv (insertOpen s).1 := by
  unfold insertOpen
  simp only
  split
  · simpa [CountInv] using h
  · simp only [CountInv, nOpen] at *
    omega

theorem step_count (s : St) (e : Ev) (h : CountInv s) : CountInv (step s e).1 := by
  obtain ⟨hl, hi, _, _, _, _, _, _, _, _, _, _, hd, _, _, hs, _⟩ := gen_structure
  cases e with
  | openCheck => simp only [step, hl, if_true]; exact h
  | openInsert =>
    simp only [step, hl, if_true]
    split
    · exact h
    · exact insertOpen_count s h
  | openIncr =>
    simp only [step]
    split
    · exact h
    · rename_i n hn
      simp only [CountInv, hi] at *
      omega
  | recvNew id =>
    simp only [step]
    split
    · exact h
    · split
      · exact h
      · split
        · split
          · simp only [CountInv, nOpen] at *; omega
          · simp only [CountInv, nOpen] at *; omega
        · simp only [CountInv, nOpen] at *; omega
  | tmoCas =>
    simp only [step]
    split
    · split <;> simpa [CountInv] using h
    · exact h
  | recvIncr =>
    simp only [step]
    split
    · exact h
    · rename_i n hn
      simp only [CountInv] at *; omega
  | csCAS id =>
    simp only [step]
    split
    · rename_i hf
      have := nOpen_setEnt_open id .closing (by decide) s.tbl hf
      simp only [CountInv] at *; omega
    · exact h
  | csTomb id =>
    simp only [step]
    have := nOpen_setEnt_other id .closing .tomb (by decide) (by decide) s.tbl
    split
    · simp only [CountInv] at *; omega
    · simp only [CountInv, nOpen] at *; omega
  | csDecr =>
    simp only [step]
    split
    · exact h
    · rename_i n hn
      simp only [CountInv, hd] at *; omega
  | cas => simp only [step]; split; exact h; simpa [CountInv] using h
  | sweep =>
    simp only [step]
    split
    · simp only [CountInv, nOpen_sweep, hs] at *; omega
    · exact h
  | closeAll => simp only [step]; split; exact h; simpa [CountInv] using h
  | accept =>
    simp only [step]
    split
    · exact h
    · split
      · simpa [CountInv] using h
      · split <;> exact h
  | checkTimeout => simp only [step]; split; simpa [CountInv] using h; exact h
  | addConn => simpa [step, CountInv] using h

theorem run_count (evs : List Ev) : ∀ (s : St), CountInv s → CountInv (run s evs) := by
  induction evs with
  | nil => intro s h; exact h
  | cons e r ih => intro s h; exact ih _ (step_count s e h)

/-- **C12 (stream count).** For every interleaving of the atomic steps of OpenStream, incoming new
streams, closeStream, closeSession, closeAll, Accept, checkTimeout and AddConnection, in every
reachable state `activeStreamCount = #open + (#closed-not-yet-discounted) − (#inserted-not-yet-counted)`;
in particular at every quiescent moment (nothing in flight) the count equals the number of open streams. -/
theorem c12_count (sp : Bool) (evs : List Ev) :
    let s := run (init sp) evs
    s.count = (nOpen s.tbl : Int) + s.pendDecr - s.pendIncr ∧
    (s.pendIncr = 0 → s.pendDecr = 0 → s.count = nOpen s.tbl) := by
  have h := run_count evs (init sp) (by simp [CountInv, init, nOpen])
  refine ⟨h, ?_⟩
  intro h1 h2
  simp only [CountInv] at h
  omega

/-! ## teardown -/

def Torn (s : St) : Prop := s.swept = true → s.closed = true ∧ s.qclosed = true ∧ nOpen s.tbl = 0

theorem insertOpen_nOpen_closed (s : St) : (insertOpen s).1.swept = s.swept ∧ (insertOpen s).1.closed = s.closed ∧
    (insertOpen s).1.qclosed = s.qclosed := by
  unfold insertOpen; simp only; split <;> simp

theorem step_torn (s : St) (e : Ev) (h : Torn s) : Torn (step s e).1 := by
  obtain ⟨hl, _⟩ := gen_structure
  cases e with
  | openCheck => simp only [step, hl, if_true]; exact h
  | openInsert =>
    simp only [step, hl, if_true]
    split
    · exact h
    · rename_i hc
      have := insertOpen_nOpen_closed s
      intro hs
      rw [this.1] at hs
      exact absurd (h hs).1 hc
  | openIncr => simp only [step]; split; exact h; simpa [Torn] using h
  | recvNew id =>
    simp only [step]
    split
    · exact h
    · rename_i hc
      split
      · exact h
      · split
        · split
          · intro hs; exact absurd (h hs).1 hc
          · intro hs; exact absurd (h hs).1 hc
        · intro hs; exact absurd (h hs).1 hc
  | tmoCas =>
    simp only [step]
    split
    · split
      · simpa [Torn] using h
      · intro hs; have h' := h hs; exact ⟨rfl, h'.2.1, h'.2.2⟩
    · exact h
  | recvIncr => simp only [step]; split; exact h; simpa [Torn] using h
  | csCAS id =>
    simp only [step]
    split
    · rename_i hf
      have := nOpen_setEnt_open id .closing (by decide) s.tbl hf
      intro hs
      have := h hs
      simp only at *
      refine ⟨this.1, this.2.1, by omega⟩
    · exact h
  | csTomb id =>
    simp only [step]
    have := nOpen_setEnt_other id .closing .tomb (by decide) (by decide) s.tbl
    split
    · intro hs; have h' := h hs; exact ⟨h'.1, h'.2.1, by simp only; omega⟩
    · intro hs; have h' := h hs; exact ⟨h'.1, h'.2.1, by simp only [nOpen]; exact h'.2.2⟩
  | csDecr => simp only [step]; split; exact h; simpa [Torn] using h
  | cas =>
    simp only [step]
    split
    · exact h
    · intro hs; have h' := h hs; exact ⟨rfl, h'.2.1, h'.2.2⟩
  | sweep =>
    simp only [step]
    split
    · rename_i hc
      intro _
      exact ⟨hc, rfl, nOpen_sweep _⟩
    · exact h
  | closeAll => simp only [step]; split; exact h; simpa [Torn] using h
  | accept =>
    simp only [step]
    split
    · exact h
    · split
      · simpa [Torn] using h
      · split <;> exact h
  | checkTimeout => simp only [step]; split; simpa [Torn] using h; exact h
  | addConn => simpa [step, Torn] using h

theorem run_torn (evs : List Ev) : ∀ (s : St), Torn s → Torn (run s evs) := by
  induction evs with
  | nil => intro s h; exact h
  | cons e r ih => intro s h; exact ih _ (step_torn s e h)

/-- **C12 (teardown).** For every interleaving: once the locked section of `closeSession` has run,
the accept queue is closed and no stream is open — and this remains true under ANY later steps, i.e.
every later `OpenStream` and every later frame for a new stream is refused (they cannot produce an
open stream).  Needs `OpenStream`'s closed-test to be inside the `streamsM` section (regenerated fact). -/
theorem c12_teardown (sp : Bool) (evs : List Ev) :
    let s := run (init sp) evs
    s.swept = true → s.closed = true ∧ s.qclosed = true ∧ nOpen s.tbl = 0 :=
  run_torn evs (init sp) (by simp [Torn, init])

/-- after the sweep an `OpenStream` is refused and an `Accept` on the drained queue returns the error -/
theorem c12_refuses (s : St) (h : s.closed = true) :
    (step s .openInsert).2 = .refused ∧ (∀ id, (step s (.recvNew id)).2 = .refused) ∧
    (s.qclosed = true → s.accq = [] → (step s .accept).2 = .refused) := by
  obtain ⟨hl, _⟩ := gen_structure
  refine ⟨by simp [step, hl, h], by intro id; simp [step, h], ?_⟩
  intro hq ha; simp [step, hq, ha, h]

/-- a connection handed to a torn-down session is closed, not kept: `addConn` tests the teardown under the mutex under which
`closeAll` sweeps, so every connection is either stored before the sweep (and closed by it) or refused (and closed) after it
(`c12_conns`: all stored connections end up closed) -/
theorem gen_late_conn : Gen.Session.addConnRefusesAfterTeardown = true ∧ Gen.Session.closeSweepsEvenIfNoticeFails = true := by decide

/-- closing a receive buffer wakes every parked reader (a `Signal` would wake one and leave the others parked for
ever: "every blocked read ... returns"); runtime wake-ups themselves are the monitors' part (scenario c12many.go) -/
theorem gen_wake_all : Gen.Session.streamPipeCloseWakesAll = true ∧ Gen.Session.dgramPipeCloseWakesAll = true := by decide

/-- `Accept` does not look at the closed flag before the queue (it did before /repo's fix) -/
theorem gen_accept : Gen.Session.acceptChecksClosedFirst = false := by decide

/-- **C03/C12 (a stream that was queued when the session closed is still handed to `Accept`).**  Whatever the state —
closed, swept, broken — an `Accept` takes the oldest queued stream; only the drained queue refuses.  So a short singleplex
exchange (the peer opens, writes B, closes, its session-closing notice is processed) is not lost when this side gets to
`Accept` late: the stream is accepted and, its buffer having been closed by the sweep, reads B and then the error. -/
theorem c12_accept_drains_queue (s : St) (id : Nat) (r : List Nat) (h : s.accq = id :: r) :
    step s .accept = ({ s with accq := r }, .ok) := by
  simp [step, gen_accept, h]

/-- the old shape: with the closed test first the queued stream is never handed over -/
theorem c12_accept_closed_first_witness (s : St) (h : s.closed = true) :
    (if true && s.closed then (s, Res.refused) else (match s.accq with | _ :: r => ({ s with accq := r }, Res.ok) | [] => (s, Res.block))).2 = .refused := by
  simp [h]

/-! ## inactivity timer -/

def TmoInv (s : St) : Prop := CountInv s ∧ s.tmoBusy = false

theorem step_tmo (s : St) (e : Ev) (h : TmoInv s) : TmoInv (step s e).1 := by
  refine ⟨step_count s e h.1, ?_⟩
  have hb := h.2
  cases e with
  | checkTimeout =>
    simp only [step]
    split
    · rename_i hc
      have := (gen_timeout _ _).1 hc
      have hci := h.1
      simp only [CountInv] at hci
      simp only [hb, Bool.false_or, Bool.and_eq_false_iff, decide_eq_false_iff_not]
      by_cases hp : s.pendIncr = 0
      · left; omega
      · right; exact hp
    · exact hb
  | openCheck => simp only [step, gen_structure.1, if_true]; exact hb
  | openInsert =>
    simp only [step, gen_structure.1, if_true]
    split
    · exact hb
    · unfold insertOpen; simp only; split <;> exact hb
  | openIncr => simp only [step]; split <;> exact hb
  | recvNew id =>
    simp only [step]
    split
    · exact hb
    · split
      · exact hb
      · split
        · split <;> exact hb
        · exact hb
  | tmoCas =>
    simp only [step]
    split
    · split <;> exact hb
    · exact hb
  | recvIncr => simp only [step]; split <;> exact hb
  | csCAS id => simp only [step]; split <;> exact hb
  | csTomb id => simp only [step]; split <;> exact hb
  | csDecr => simp only [step]; split <;> exact hb
  | cas => simp only [step]; split <;> exact hb
  | sweep => simp only [step]; split <;> exact hb
  | closeAll => simp only [step]; split <;> exact hb
  | accept =>
    simp only [step]
    split
    · exact hb
    · split
      · exact hb
      · split <;> exact hb
  | addConn => exact hb

/-- **C12 (inactivity timer).** In every interleaving, `checkTimeout` never initiates a close at a
moment when a stream is open and no `OpenStream`/incoming-stream is between its insert and its
count++ — i.e. the timer closes a session only while it has no open stream. -/
theorem c12_timeout (sp : Bool) (evs : List Ev) : (run (init sp) evs).tmoBusy = false := by
  have : ∀ (evs : List Ev) (s : St), TmoInv s → TmoInv (run s evs) := by
    intro evs
    induction evs with
    | nil => intro s h; exact h
    | cons e r ih => intro s h; exact ih _ (step_tmo s e h)
  exact (this evs (init sp) ⟨by simp [CountInv, init, nOpen], rfl⟩).2

/-- the accept queue never holds more than the backlog: the enqueue under `streamsM` can therefore always be the
non-blocking `select` case (this is what removes the one blocking operation under a lock that `c12_lock_order` used to
assume away) -/
theorem c12_backlog_bounded (sp : Bool) (evs : List Ev) :
    ((run (init sp) evs).accq.length : Int) ≤ max Gen.Session.acceptBacklog 0 := by
  have hb : (0 : Int) ≤ Gen.Session.acceptBacklog := by decide
  have key : ∀ (evs : List Ev) (s : St), (s.accq.length : Int) ≤ Gen.Session.acceptBacklog →
      ((run s evs).accq.length : Int) ≤ Gen.Session.acceptBacklog := by
    intro evs
    induction evs with
    | nil => intro s h; exact h
    | cons e r ih =>
      intro s h
      apply ih
      cases e with
      | recvNew id =>
        simp only [step]
        split
        · exact h
        · split
          · exact h
          · split
            · split <;> exact h
            · rename_i hlt
              simp only [List.length_append, List.length_cons, List.length_nil]
              omega
      | accept =>
        simp only [step]
        split
        · exact h
        · split
          · rename_i x r' hq
            rw [hq] at h
            simp only [List.length_cons] at h
            simp only
            omega
          · split <;> exact h
      | openCheck => simp only [step]; split; exact h; split <;> exact h
      | openInsert =>
        simp only [step]
        split
        · split
          · exact h
          · unfold insertOpen; simp only; split <;> exact h
        · split
          · exact h
          · unfold insertOpen; simp only; split <;> exact h
      | openIncr => simp only [step]; split <;> exact h
      | recvIncr => simp only [step]; split <;> exact h
      | csCAS id => simp only [step]; split <;> exact h
      | csTomb id => simp only [step]; split <;> exact h
      | csDecr => simp only [step]; split <;> exact h
      | cas => simp only [step]; split <;> exact h
      | sweep => simp only [step]; split <;> exact h
      | closeAll => simp only [step]; split <;> exact h
      | checkTimeout => simp only [step]; split <;> exact h
      | tmoCas => simp only [step]; split; split <;> exact h; exact h
      | addConn => exact h
  have := key evs (init sp) (by simp [init]; exact hb)
  omega

/-! ## the inactivity timer, full statement (open finding) -/

/-- the property as stated: the timer closes a session ONLY WHILE it has no open stream — at the moment the timer
goroutine's `Close()` takes effect (its CAS on `closed`), no stream is open -/
def c12_timeout_full : Prop := ∀ (sp : Bool) (evs : List Ev), (run (init sp) evs).tmoCasBusy = false

/-- **C12 (open finding).** `checkTimeout` tests `streamCount() == 0 && !IsClosed()` and only then calls `Close()`:
a stream opened in between is closed with the session. Five-step witness; `c12_timeout` above is the partial
statement that does hold (the timer never *initiates* a close while a stream is open). -/
theorem c12_timeout_witness : ¬ c12_timeout_full := by
  intro h
  have := h false [.checkTimeout, .openCheck, .openInsert, .openIncr, .tmoCas]
  revert this
  have := gen_structure
  decide

/-- **C12 (connections).** `closeAll` leaves every pooled connection closed. -/
theorem c12_conns (s : St) (h : s.broken = false) : ∀ c ∈ (step s .closeAll).1.conns, c = false := by
  simp [step, h]

/-! ## the pinned `OpenStream` (closed-test outside the lock) breaks the teardown clause: explicit
witness about the *pinned* step function, independent of `Gen` -/
def stepPinnedOpen (s : St) : Ev → St
  | .openCheck => if s.closed then s else { s with passed := s.passed + 1 }
  | .openInsert => match s.passed with
      | 0 => s
      | n + 1 => (insertOpen { s with passed := n }).1
  | .cas => { s with closed := true }
  | .sweep => if s.closed then { s with swept := true, qclosed := true, tbl := sweepTbl s.tbl } else s
  | _ => s

theorem c12_pinned_open_witness :
    let s := [Ev.openCheck, .cas, .sweep, .openInsert].foldl stepPinnedOpen (init false)
    s.swept = true ∧ nOpen s.tbl = 1 := by decide

/-- non-vacuity: a run that opens two streams, closes one, then tears the session down -/
example : let s := run (init false) [.openCheck, .openInsert, .openIncr, .recvNew 7, .recvIncr, .csCAS 1, .csTomb 1, .csDecr, .cas, .sweep]
    s.swept = true ∧ s.count = 0 ∧ s.tbl = [(1, .tomb)] := by
  have := gen_structure
  decide

end C12

#print axioms C12.c12_count
#print axioms C12.c12_teardown
#print axioms C12.c12_timeout
