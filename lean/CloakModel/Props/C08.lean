import CloakModel.Model.AuthFirst
import CloakModel.Lemmas.ReplayInv
import CloakModel.Lemmas.AuthWindow

/-! # C08 — A captured handshake can never be replayed successfully

Layers: (1) bridging lemmas about the terms regenerated from `state.go` / `auth.go`
(`Gen.Replay.evict`, `Gen.Replay.keyMask31`, `Gen.Auth.windowReject`, structural facts);
(2) `c08_retention`: the cache machine the driver runs against the real `AuthFirstPacket` never
accepts one (registered key, timestamp) twice, for every history of presentations and clean-ups;
(3) `c08_concurrent`: N simultaneous presentations, any schedule; (4) `c08_altered` / `c08_once`:
the statement about sealed identity blocks, under the idealisations `INT` and `DH12`;
(5) refutation witnesses about the explicit PINNED values (eviction offset `+tolerance`, raw cache key).

On the pinned tree `gen_evict_sound` and `gen_key_canonical` do not hold (the two genuine defects);
they are proved from the facts of the REPAIRED code (`fixes/C08-*.patch`). -/
set_option linter.unusedSimpArgs false
set_option linter.unusedVariables false

namespace C08
open Replay HS

/-! ## 1. What the regenerated terms mean -/

theorem gen_tol_same : Gen.Replay.timestampTolerance = Gen.Auth.timestampTolerance := by decide

/-- the cleaner evicts an entry only when it was last sighted MORE than two tolerances ago.
(Pinned tree: `t·10⁹ < now + tolerance`, i.e. everything — this lemma then fails.) -/
theorem gen_evict_sound : EvictSound Gen.Replay.evict tolS := by
  intro t now h
  have ht := gen_tol
  simp only [Gen.Auth.timestampTolerance] at ht
  unfold Gen.Replay.evict at h
  simp only [Bool.and_eq_true, Bool.or_eq_true, Bool.not_eq_true', decide_eq_true_eq, decide_eq_false_iff_not] at h
  omega

theorem gen_window_sound : WindowSound G.inWin tolS := by
  intro ts now h
  have ht := gen_tol
  have := (window_exact ts now).1 h
  simp only [Gen.Auth.timestampTolerance] at ht this
  omega

/-- what is registered is the random with bit 255 cleared (pinned tree: mask 255 = the raw bytes) -/
theorem gen_key_canonical : Gen.Replay.keyMask31 = 127 := by decide

/-- structure of `registerRandom`, `UsedRandomCleaner` and `AuthFirstPacket` the model relies on -/
theorem gen_structure :
    Gen.Replay.registerAtomic = true ∧ Gen.Replay.registerBeforeDecrypt = true ∧
    Gen.Replay.replayReturnsBeforeDecrypt = true ∧ Gen.Replay.storesUnixSeconds = true ∧
    Gen.Replay.storeUnconditional = true ∧ Gen.Replay.returnsUsed = true ∧ Gen.Replay.cleanerLocked = true ∧
    Gen.Replay.oneClockReadingPerPresentation = true ∧ Gen.Replay.registerUsesCallersReading = true := by decide

theorem keyOf_eq (r : Bytes) : G.keyOf r = clear255 r := by
  unfold G.keyOf canon clear255; rw [gen_key_canonical]; rfl

/-! ## 2. Retention: every history of presentations and clean-ups -/

/-- **C08 (same key, across clean-ups).** In every history of presentations and cleaner passes on a
monotone clock, no two accepted presentations have the same registered key and the same embedded
timestamp.  This is the executable machine `Replay.G.*` built from the regenerated eviction
predicate, window and key canonicalisation. -/
theorem c08_retention (h : List Ev) (hmono : (h.map clockOf).Pairwise (· ≤ ·)) :
    (G.run h).acc.Pairwise (fun a b => ¬ (G.keyOf a.1.rand = G.keyOf b.1.rand ∧ a.1.ts = b.1.ts)) :=
  once_of_sound Gen.Replay.evict G.keyOf G.inWin tolS gen_evict_sound gen_window_sound h hmono

/-- hypotheses of `c08_retention` are satisfiable and the machine really accepts, then refuses the
replay on both sides of a clean-up -/
example :
    let p : Pkt := ⟨List.replicate 32 7, true, true, 1000⟩
    let h := [Ev.present p 1000000000000, Ev.clean 1001000000000, Ev.present p 1002000000000]
    (h.map clockOf).Pairwise (· ≤ ·) ∧ (G.run h).acc.length = 1 := by
  refine ⟨by decide, by decide⟩

/-! ## 3. Simultaneous presentations -/

theorem u8_all (P : UInt8 → Prop) (h : ∀ n, n < 256 → P (UInt8.ofNat n)) : ∀ b, P b := by
  intro b
  have := h b.toNat (UInt8.toNat_lt b)
  simpa using this

/-- invariant of the atomic (one test-and-set per goroutine) schedule -/
structure CInv (was : Bool) (s : CSt) : Prop where
  shape : ∀ t ∈ s.ths, t = ⟨[.tas], none⟩ ∨ (t.pc = [] ∧ ∃ b, t.seen = some b)
  cnt : fresh s = if was = false ∧ 0 < finished s then 1 else 0
  pres : s.present = (was || decide (0 < finished s))

theorem fresh_eq (s : CSt) : fresh s = s.ths.countP (fun t => t.seen == some false) := by
  simp [fresh, List.countP_eq_length_filter]
theorem finished_eq (s : CSt) : finished s = s.ths.countP (fun t => t.pc == []) := by
  simp [finished, List.countP_eq_length_filter]

theorem cinv_step (was : Bool) (s : CSt) (h : CInv was s) (i : Nat) : CInv was (cstep s i) := by
  unfold cstep
  cases hi : s.ths[i]? with
  | none => simpa using h
  | some t =>
    simp only
    have hlt : i < s.ths.length := by
      rcases List.getElem?_eq_some_iff.1 hi with ⟨hl, _⟩; exact hl
    have hget : s.ths[i] = t := by
      rcases List.getElem?_eq_some_iff.1 hi with ⟨_, he⟩; exact he
    have hmem : t ∈ s.ths := hget ▸ List.getElem_mem hlt
    rcases h.shape t hmem with rfl | ⟨hpc, b, hb⟩
    · -- the goroutine performs its test-and-set
      simp only
      have hf := h.cnt; have hp := h.pres
      have hfresh' : fresh ⟨true, s.ths.set i ⟨[], some s.present⟩⟩ = fresh s + (if s.present = false then 1 else 0) := by
        rw [fresh_eq, fresh_eq]
        simp only [List.countP_set hlt, hget]
        cases s.present <;> simp
      have hfin' : finished ⟨true, s.ths.set i ⟨[], some s.present⟩⟩ = finished s + 1 := by
        rw [finished_eq, finished_eq]
        simp only [List.countP_set hlt, hget]
        simp
      refine ⟨?_, ?_, ?_⟩
      · intro t' ht'
        rcases List.mem_or_eq_of_mem_set ht' with h1 | h1
        · exact h.shape t' h1
        · right; subst h1; exact ⟨rfl, _, rfl⟩
      · rw [hfresh', hfin', hf]
        cases hw : was
        · by_cases hfin : 0 < finished s
          · simp [hw, hfin] at hp; simp [hp, hfin]
          · have h0 : finished s = 0 := by omega
            simp [hw, h0] at hp; simp [hp, h0]
        · simp [hw] at hp; simp [hp]
      · rw [hfin']; simp
    · -- already finished: no-op
      cases t with
      | mk pc seen => simp only at hpc; subst hpc; simpa using h

theorem cinv_run (was : Bool) (n : Nat) : ∀ (sched : List Nat) (s : CSt), CInv was s → CInv was (sched.foldl cstep s) := by
  intro sched
  induction sched with
  | nil => intro s h; exact h
  | cons i r ih => intro s h; exact ih _ (cinv_step was s h i)

theorem cinv_init (was : Bool) (n : Nat) : CInv was (cinit true was n) := by
  have hfin : finished (cinit true was n) = 0 := by
    simp [finished, cinit, prog, List.filter_replicate]
  refine ⟨?_, ?_, ?_⟩
  · intro t ht; left
    simp [cinit, prog] at ht; exact ht.2
  · rw [hfin]; simp [fresh, cinit, prog, List.filter_replicate]
  · rw [hfin]; simp [cinit]

/-- **C08 (concurrent).** N goroutines present one packet simultaneously, in ANY interleaving of the
critical sections the extractor saw in `registerRandom` (`Gen.Replay.registerAtomic`): if the key was
not in the cache, exactly one of those that got through is told "not used"; if it was, none. -/
theorem c08_concurrent (was : Bool) (n : Nat) (sched : List Nat) :
    let s := crun Gen.Replay.registerAtomic was n sched
    fresh s = (if was = false ∧ 0 < finished s then 1 else 0) := by
  have ha : Gen.Replay.registerAtomic = true := gen_structure.1
  rw [ha]
  exact (cinv_run was n sched _ (cinv_init was n)).cnt

/-- if lookup and store were two critical sections (e.g. RLock for the lookup, Lock for the store)
two goroutines can both be told "not used" -/
theorem c08_concurrent_witness_split : fresh (crun false false 2 [0, 1, 0, 1]) = 2 := by decide

example : fresh (crun Gen.Replay.registerAtomic false 3 [2, 0, 2, 1]) = 1 := by decide

/-! ## 4. Sealed identity blocks: altered copies, and the full statement -/

/-- a first packet reduced to what `processFirstPacket` extracts from it -/
structure CPkt where
  rand : Bytes
  ct : Bytes
deriving DecidableEq, Repr

inductive CEv | present (p : CPkt) (now : Int) | clean (now : Int)

structure CSt where
  cache : Cache
  acc : List (CPkt × Int)

/-- the server: `AuthFirstPacket` (`HS.authCore`) and `UsedRandomCleaner` (`Replay.G.clean`) -/
def cstepEv (C : Crypto) (sk : Bytes) (s : CSt) : CEv → CSt
  | .present p now =>
    match authCore C sk s.cache p.rand p.ct now with
    | (c, .ok _) => ⟨c, s.acc ++ [(p, now)]⟩
    | (c, _) => ⟨c, s.acc⟩
  | .clean now => ⟨(G.clean ⟨s.cache, []⟩ now).cache, s.acc⟩

def cclock : CEv → Int | .present _ n => n | .clean n => n
def crunEv (C : Crypto) (sk : Bytes) (h : List CEv) : CSt := h.foldl (cstepEv C sk) ⟨[], []⟩
def randsOf : List CEv → List Bytes
  | [] => []
  | .present p _ :: r => p.rand :: randsOf r
  | .clean _ :: r => randsOf r

/-- the plaintext the server obtains for a packet, if any -/
def opened (C : Crypto) (sk : Bytes) (p : CPkt) : Option Bytes :=
  (C.dh sk p.rand).bind (fun s => C.gcmOpen (fit 32 s) (slice p.rand Gen.Handshake.sNonceLo Gen.Handshake.sNonceHi) p.ct)

/-- how the cache machine of section 2 sees a packet -/
def view (C : Crypto) (sk : Bytes) (p : CPkt) : Pkt :=
  { rand := p.rand, reg := (C.dh sk p.rand).isSome,
    ok := match opened C sk p with
      | some pt => !(decide (pt.length < sNeed)) && (plainInfo pt 0).isSome
      | none => false,
    ts := match opened C sk p with | some pt => plainTs pt | none => 0 }

def viewEv (C : Crypto) (sk : Bytes) : CEv → Ev
  | .present p now => .present (view C sk p) now
  | .clean now => .clean now

theorem plainInfo_isSome (pt : Bytes) (a b : Nat) : (plainInfo pt a).isSome = (plainInfo pt b).isSome := by
  unfold plainInfo
  cases pt[Gen.Handshake.sEncIdx]? <;> cases pt[Gen.Handshake.sFlagIdx]? <;> simp [bind, Option.bind]

theorem authCore_some (C : Crypto) (sk : Bytes) (cache : Cache) (rand ct : Bytes) (now : Int) (secret : Bytes)
    (hdh : C.dh sk rand = some secret) :
    authCore C sk cache rand ct now =
      if used cache (G.keyOf rand) = true then
        ((G.keyOf rand, now / 1000000000) :: cache.filter (fun e => decide (e.1 ≠ G.keyOf rand)), .replay)
      else match decryptInfo C ⟨fit 32 secret, rand, ct⟩ now with
        | .ok info => ((G.keyOf rand, now / 1000000000) :: cache.filter (fun e => decide (e.1 ≠ G.keyOf rand)), .ok info)
        | .error e => ((G.keyOf rand, now / 1000000000) :: cache.filter (fun e => decide (e.1 ≠ G.keyOf rand)), .badDecrypt e) := by
  simp only [authCore, authFrag, hdh, register]
  rfl

/-- whether `decryptClientInfo` succeeds, in terms of what opens -/
def decOk (C : Crypto) (f : Fragments) (now : Int) : Bool :=
  match C.gcmOpen f.shared (slice f.rand Gen.Handshake.sNonceLo Gen.Handshake.sNonceHi) f.ct with
  | some pt => !(decide (pt.length < sNeed)) && (plainInfo pt 0).isSome && inWindow (plainTs pt) now
  | none => false

theorem decryptInfo_ok (C : Crypto) (f : Fragments) (now : Int) :
    (∃ info, decryptInfo C f now = .ok info) ↔ decOk C f now = true := by
  unfold decryptInfo decOk
  cases hop : C.gcmOpen f.shared (slice f.rand Gen.Handshake.sNonceLo Gen.Handshake.sNonceHi) f.ct with
  | none => simp
  | some pt =>
    simp only
    by_cases hlen : pt.length < sNeed
    · simp [hlen]
    · simp only [hlen, if_false, decide_false, Bool.not_false, Bool.true_and]
      rw [plainInfo_isSome pt 0 (beNat (slice pt Gen.Handshake.sSidLo Gen.Handshake.sSidHi))]
      cases hpi : plainInfo pt (beNat (slice pt Gen.Handshake.sSidLo Gen.Handshake.sSidHi)) with
      | none => simp
      | some info => cases hw : inWindow (plainTs pt) now <;> simp

theorem view_ok (C : Crypto) (sk : Bytes) (p : CPkt) (now : Int) (secret : Bytes) (hdh : C.dh sk p.rand = some secret) :
    ((view C sk p).ok && G.inWin (view C sk p).ts now) = decOk C ⟨fit 32 secret, p.rand, p.ct⟩ now := by
  simp only [view, opened, hdh, Option.bind_some, decOk]
  cases C.gcmOpen (fit 32 secret) (slice p.rand Gen.Handshake.sNonceLo Gen.Handshake.sNonceHi) p.ct with
  | none => simp
  | some pt => rfl

/-- one step of the server = one step of the cache machine on the packet's view -/
theorem step_sim (C : Crypto) (sk : Bytes) (s : CSt) (e : CEv) :
    (cstepEv C sk s e).cache = (G.stepEv ⟨s.cache, s.acc.map (fun a => (view C sk a.1, a.2))⟩ (viewEv C sk e)).cache ∧
    (cstepEv C sk s e).acc.map (fun a => (view C sk a.1, a.2)) =
      (G.stepEv ⟨s.cache, s.acc.map (fun a => (view C sk a.1, a.2))⟩ (viewEv C sk e)).acc := by
  cases e with
  | clean now => simp [cstepEv, viewEv, G.stepEv, stepEv, G.clean, clean]
  | present p now =>
    simp only [cstepEv, viewEv, G.stepEv, stepEv]
    rw [present_state]
    cases hdh : C.dh sk p.rand with
    | none =>
      have hreg : (view C sk p).reg = false := by simp [view, hdh]
      simp [authCore, hdh, hreg]
    | some secret =>
      have hreg : ¬ (view C sk p).reg = false := by simp [view, hdh]
      rw [if_neg hreg, authCore_some C sk s.cache p.rand p.ct now secret hdh]
      have hvr : (view C sk p).rand = p.rand := rfl
      simp only [hvr]
      by_cases hu : used s.cache (G.keyOf p.rand) = true
      · simp [hu]
      · have hu' : used s.cache (G.keyOf p.rand) = false := by simpa using hu
        simp only [hu, if_false, hu', true_and]
        have hv := view_ok C sk p now secret hdh
        by_cases hd : decOk C ⟨fit 32 secret, p.rand, p.ct⟩ now = true
        · obtain ⟨info, hinfo⟩ := (decryptInfo_ok C _ now).2 hd
          rw [hd] at hv
          have hv2 : (view C sk p).ok = true ∧ G.inWin (view C sk p).ts now = true := by
            simpa [Bool.and_eq_true] using hv
          simp [hinfo, hv2]
        · have hno : ∀ info, decryptInfo C ⟨fit 32 secret, p.rand, p.ct⟩ now ≠ .ok info := by
            intro info hi; exact hd ((decryptInfo_ok C _ now).1 ⟨info, hi⟩)
          have hd' : decOk C ⟨fit 32 secret, p.rand, p.ct⟩ now = false := by simpa using hd
          rw [hd'] at hv
          have hv2 : ¬ ((view C sk p).ok = true ∧ G.inWin (view C sk p).ts now = true) := by
            intro hc; simp [hc.1, hc.2] at hv
          rw [if_neg hv2]
          cases hdi : decryptInfo C ⟨fit 32 secret, p.rand, p.ct⟩ now with
          | ok info => exact absurd hdi (hno info)
          | error e => simp

theorem run_sim (C : Crypto) (sk : Bytes) : ∀ (h : List CEv) (s : CSt),
    (h.foldl (cstepEv C sk) s).acc.map (fun a => (view C sk a.1, a.2)) =
      ((h.map (viewEv C sk)).foldl G.stepEv ⟨s.cache, s.acc.map (fun a => (view C sk a.1, a.2))⟩).acc ∧
    (h.foldl (cstepEv C sk) s).cache =
      ((h.map (viewEv C sk)).foldl G.stepEv ⟨s.cache, s.acc.map (fun a => (view C sk a.1, a.2))⟩).cache := by
  intro h
  induction h with
  | nil => intro s; simp
  | cons e r ih =>
    intro s
    simp only [List.foldl_cons, List.map_cons]
    have hs := step_sim C sk s e
    have := ih (cstepEv C sk s e)
    have heq : G.stepEv ⟨s.cache, s.acc.map (fun a => (view C sk a.1, a.2))⟩ (viewEv C sk e) =
        ⟨(cstepEv C sk s e).cache, (cstepEv C sk s e).acc.map (fun a => (view C sk a.1, a.2))⟩ := by
      cases hst : G.stepEv ⟨s.cache, s.acc.map (fun a => (view C sk a.1, a.2))⟩ (viewEv C sk e) with
      | mk c a => rw [hst] at hs; simp only at hs; rw [hs.1, hs.2]
    rw [heq]
    exact this

theorem clock_sim (C : Crypto) (sk : Bytes) (h : List CEv) : (h.map (viewEv C sk)).map clockOf = h.map cclock := by
  induction h with
  | nil => rfl
  | cons e r ih => cases e <;> simp [viewEv, clockOf, cclock, ih]

theorem acc_rand_mem (C : Crypto) (sk : Bytes) : ∀ (h : List CEv) (s : CSt) (U : List Bytes),
    (∀ a ∈ s.acc, a.1.rand ∈ U) → (∀ r ∈ randsOf h, r ∈ U) →
    ∀ a ∈ (h.foldl (cstepEv C sk) s).acc, a.1.rand ∈ U := by
  intro h
  induction h with
  | nil => intro s U hs _; exact hs
  | cons e r ih =>
    intro s U hs hr
    simp only [List.foldl_cons]
    cases e with
    | clean now =>
      apply ih _ U _ (by intro x hx; exact hr x (by simpa [randsOf] using hx))
      simpa [cstepEv] using hs
    | present p now =>
      apply ih _ U _ (by intro x hx; exact hr x (by simp [randsOf, hx]))
      have hp : p.rand ∈ U := hr _ (by simp [randsOf])
      simp only [cstepEv]
      split
      · intro a ha
        rcases List.mem_append.1 ha with ha | ha
        · exact hs a ha
        · simp at ha; subst ha; exact hp
      · exact hs

/-- **C08 (altered copies).** Two packets carrying the SAME sealed identity block which the server
both authenticates have — under `INT` and `DH12` — the same registered cache key and the same
embedded timestamp.  (So the second one meets the entry the first one left.) -/
theorem c08_altered (C : Crypto) (sk : Bytes) (U : Bytes → Prop) (hint : INT C sk U) (hdh : DH12 C sk U)
    (hn : Gen.Handshake.sNonceLo = 0 ∧ Gen.Handshake.sNonceHi = 12)
    (p q : CPkt) (hp : U p.rand) (hq : U q.rand) (hpl : p.rand.length = 32) (hql : q.rand.length = 32)
    (hct : p.ct = q.ct) (hpo : (view C sk p).ok = true) (hqo : (view C sk q).ok = true)
    (hfit : ∀ r s, C.dh sk r = some s → fit 32 s = s) :
    G.keyOf p.rand = G.keyOf q.rand ∧ (view C sk p).ts = (view C sk q).ts := by
  have hsl : ∀ r : Bytes, slice r Gen.Handshake.sNonceLo Gen.Handshake.sNonceHi = r.take 12 := by
    intro r; rw [hn.1, hn.2]; simp [slice]
  simp only [view, opened] at hpo hqo ⊢
  cases hdp : C.dh sk p.rand with
  | none => simp [hdp] at hpo
  | some sp =>
    cases hdq : C.dh sk q.rand with
    | none => simp [hdq] at hqo
    | some sq =>
      simp only [hdp, hdq, Option.bind_some, hsl, hfit _ _ hdp, hfit _ _ hdq] at hpo hqo ⊢
      cases hop : C.gcmOpen sp (p.rand.take 12) p.ct with
      | none => simp [hop] at hpo
      | some ptp =>
        cases hoq : C.gcmOpen sq (q.rand.take 12) q.ct with
        | none => simp [hoq] at hqo
        | some ptq =>
          have h1 : opensUnder C sk p.rand p.ct = some ptp := by simp [opensUnder, hdp, hop]
          have h2 : opensUnder C sk q.rand p.ct = some ptq := by simp [opensUnder, hdq, hct, hoq]
          obtain ⟨hk, hnn⟩ := hint _ _ _ _ _ hp hq h1 h2
          have hkey := hdh _ _ hp hq hpl hql hnn (by simp [hdp]) hk
          rw [hdp, hdq] at hk
          have hss : sp = sq := by simpa using hk
          subst hss
          rw [hnn, hct] at hop
          rw [hop] at hoq
          have : ptp = ptq := by simpa using hoq
          subst this
          exact ⟨by rw [keyOf_eq, keyOf_eq]; exact hkey, rfl⟩

/-- **C08 (full statement).** In every history of presentations of arbitrary packets at arbitrary
server times, interleaved with passes of the replay-cache cleaner at arbitrary moments (monotone
clock), the server accepts at most one packet carrying any given sealed identity block — exact
copies and altered copies alike.  Hypotheses: the idealisations `INT` and `DH12` over the 32-byte
values that are presented, and that the key-agreement output is 32 bytes (`Lawful.dh_len`). -/
theorem c08_once (C : Crypto) (sk : Bytes) (h : List CEv)
    (hmono : (h.map cclock).Pairwise (· ≤ ·))
    (hlen : ∀ r ∈ randsOf h, r.length = 32)
    (hint : INT C sk (· ∈ randsOf h)) (hdh : DH12 C sk (· ∈ randsOf h))
    (hdl : ∀ a b s, C.dh a b = some s → s.length = 32) :
    (crunEv C sk h).acc.Pairwise (fun a b => a.1.ct ≠ b.1.ct) := by
  have hn : Gen.Handshake.sNonceLo = 0 ∧ Gen.Handshake.sNonceHi = 12 := by decide
  have hfit : ∀ r s, C.dh sk r = some s → fit 32 s = s := by
    intro r s hs; have := hdl _ _ _ hs
    simp [fit, this, zeros, List.take_of_length_le (Nat.le_of_eq this)]
  have hsim := (run_sim C sk h ⟨[], []⟩).1
  have hret := c08_retention (h.map (viewEv C sk)) (by rw [clock_sim]; exact hmono)
  have hsound : ∀ a ∈ ((h.map (viewEv C sk)).foldl G.stepEv init).acc,
      a.1.reg = true ∧ a.1.ok = true ∧ G.inWin a.1.ts a.2 = true :=
    acc_sound Gen.Replay.evict G.keyOf G.inWin (h.map (viewEv C sk)) init (by simp [init])
  have hmem := acc_rand_mem C sk h ⟨[], []⟩ (randsOf h) (by simp) (by intro r hr; exact hr)
  simp only [List.map_nil] at hsim
  unfold crunEv
  unfold G.run at hret
  have hinit : (init : St) = ⟨[], []⟩ := rfl
  rw [hinit] at hret hsound
  rw [← hsim] at hret hsound
  rw [List.pairwise_map] at hret
  refine hret.imp_of_mem ?_
  intro a b ha hb hne hct
  apply hne
  have hao := (hsound (view C sk a.1, a.2) (List.mem_map.2 ⟨a, ha, rfl⟩)).2.1
  have hbo := (hsound (view C sk b.1, b.2) (List.mem_map.2 ⟨b, hb, rfl⟩)).2.1
  have := c08_altered C sk (· ∈ randsOf h) hint hdh hn a.1 b.1 (hmem a ha) (hmem b hb)
    (hlen _ (hmem a ha)) (hlen _ (hmem b hb)) hct hao hbo hfit
  exact ⟨by simpa [view] using this.1, this.2⟩

/-! ## 5. Refutations for the PINNED values (explicit terms, not `Gen`) -/

/-- eviction predicate and window as the pinned tree has them -/
def pinnedEvict (t now : Int) : Bool := decide ((t * 1000000000 + 0) < (now + 180000000000))
def pinnedWin (ts now : Int) : Bool := decide (now - 180000000000 < ts * 1000000000) && decide (ts * 1000000000 < now + 180000000000)

/-- pinned cleaner (`t < now + tolerance` = every entry): present, clean-up one second later,
present again one second after that — accepted twice -/
theorem c08_retention_witness_pinned :
    let p : Pkt := ⟨List.replicate 32 7, true, true, 1000⟩
    let h := [Ev.present p 1000000000000, Ev.clean 1001000000000, Ev.present p 1002000000000]
    ((h.foldl (stepEv pinnedEvict (canon 127) pinnedWin) init).acc).length = 2 := by decide

/-- **the defect repaired by /repo's "one reading of the clock" fix** (found by the second red-team round): `Replay.present`
uses ONE server time per presentation.  The tree before the fix read the clock twice — `registerRandom` stamped the entry
with the first reading, `decryptClientInfo` judged the window with a later one.  With the current eviction rule
(`t·10⁹ < now − 2·tolerance`) and window: first reading 1 ms before second 1001 (entry time 1000), window reading 1 ms
after it, packet timestamp 1181 (client 179.999 s ahead) — accepted; pass at 1360.5 s — entry 1000 < 1000.5 evicted;
presentation at 1360.6 s — the timestamp is still inside the window: accepted AGAIN.  `present2` is `present` with the two
readings kept apart; the harness replays this history on the real code with a clock that moves 2 ms per reading
(`c08plans` case 3). -/
def present2 (keyOf : Bytes → Bytes) (inWin : Int → Int → Bool) (s : St) (p : Pkt) (nowReg nowWin : Int) : St × Out :=
  if p.reg = false then (s, .early)
  else
    let (c, u) := register s.cache (keyOf p.rand) nowReg
    if u then (⟨c, s.acc⟩, .replay)
    else if p.ok && inWin p.ts nowWin then (⟨c, s.acc ++ [(p, nowWin)]⟩, .accept)
    else (⟨c, s.acc⟩, .reject)

theorem c08_two_readings_witness :
    let p : Pkt := ⟨List.replicate 32 7, true, true, 1181⟩
    let s1 := (present2 G.keyOf G.inWin init p 1000999000000 1001001000000).1
    let s2 := G.clean s1 1360500000000
    let s3 := (G.present s2 p 1360600000000).1
    s3.acc.length = 2 ∧
    -- with one reading (the repaired code) the first presentation is outside the window and nothing is accepted twice
    ((G.present (G.clean (G.present init p 1000999000000).1 1360500000000) p 1360600000000).1).acc.length ≤ 1 := by
  decide

/-- retention of ONE tolerance is not enough either (client clock 179 s ahead) -/
theorem c08_one_tol_insufficient :
    let p : Pkt := ⟨List.replicate 32 7, true, true, 1179⟩
    let h := [Ev.present p 1000000000000, Ev.clean 1181000000000, Ev.present p 1300000000000]
    ((h.foldl (stepEv (fun t now => decide (t * 1000000000 < now - 180000000000)) (canon 127) pinnedWin) init).acc).length = 2 := by decide

set_option maxRecDepth 10000 in
theorem xor128_ne : ∀ b : UInt8, b ^^^ 128 ≠ b := u8_all _ (by decide)
set_option maxRecDepth 10000 in
theorem and255 : ∀ b : UInt8, b &&& 255 = b := u8_all _ (by decide)

theorem canon255 (r : Bytes) : canon 255 r = r := by
  have : (fun b : UInt8 => b &&& UInt8.ofNat 255) = id := by funext b; exact and255 b
  simp only [canon]
  rw [this]
  simp

theorem flip255_take12 (r : Bytes) (hr : r.length = 32) : (flip255 r).take 12 = r.take 12 := by
  unfold flip255
  rw [List.take_append_of_le_length (by simp; omega)]
  simp [List.take_take]

theorem flip255_ne (r : Bytes) (hr : r.length = 32) : flip255 r ≠ r := by
  intro h
  have hd : r = r.take 31 ++ r.drop 31 := (List.take_append_drop 31 r).symm
  unfold flip255 at h
  rw [hd] at h
  have h31 : (r.take 31).length = 31 := by simp; omega
  simp only [List.take_left' h31, List.drop_left' h31] at h
  have h2 := List.append_cancel_left h
  match hdr : r.drop 31 with
  | [] => have : (r.drop 31).length = 1 := by simp; omega
          rw [hdr] at this; simp at this
  | b :: rest =>
    rw [hdr] at h2
    simp only [List.map_cons, List.cons.injEq] at h2
    exact xor128_ne b h2.1

/-- **pinned cache key (the raw 32 bytes).** Whatever the primitives are, if X25519 ignores bit 255
(`TopBit`, RFC 7748) then for EVERY packet the server accepts, the copy whose bit 255 is flipped —
same sealed block, no key needed — is accepted as well, right afterwards (cache key = raw bytes,
i.e. `canon 255`). -/
theorem c08_altered_witness_pinned (C : Crypto) (sk : Bytes) (htb : TopBit C sk)
    (hn : Gen.Handshake.sNonceLo = 0 ∧ Gen.Handshake.sNonceHi = 12)
    (rand ct : Bytes) (hr : rand.length = 32) (now : Int) (cache : Cache)
    (hu' : used cache (flip255 rand) = false) :
    let v := view C sk ⟨rand, ct⟩
    let v' := view C sk ⟨flip255 rand, ct⟩
    (present (canon 255) G.inWin ⟨cache, []⟩ v now).2 = .accept →
    (present (canon 255) G.inWin (present (canon 255) G.inWin ⟨cache, []⟩ v now).1 v' now).2 = .accept := by
  intro v v' hacc
  have hsl : ∀ r : Bytes, slice r Gen.Handshake.sNonceLo Gen.Handshake.sNonceHi = r.take 12 := by
    intro r; rw [hn.1, hn.2]; simp [slice]
  have hvreg : v'.reg = v.reg := by simp only [v, v', view, htb rand hr]
  have hvok : v'.ok = v.ok := by simp only [v, v', view, opened, htb rand hr, hsl, flip255_take12 rand hr]
  have hvts : v'.ts = v.ts := by simp only [v, v', view, opened, htb rand hr, hsl, flip255_take12 rand hr]
  have hvr : v.rand = rand := rfl
  have hvr' : v'.rand = flip255 rand := rfl
  have hne : flip255 rand ≠ rand := flip255_ne rand hr
  unfold present at hacc ⊢
  simp only [register, canon255, hvr, hvr', hvreg, hvok, hvts] at hacc ⊢
  by_cases hreg : v.reg = false
  · simp [hreg] at hacc
  · simp only [hreg, if_false] at hacc ⊢
    by_cases hu : used cache rand = true
    · simp [hu] at hacc
    · simp only [hu, if_false] at hacc ⊢
      by_cases hok : (v.ok && G.inWin v.ts now) = true
      · simp only [hok, if_true] at hacc ⊢
        have hu2 : used ((rand, now / 1000000000) :: cache.filter (fun e => decide (e.1 ≠ rand))) (flip255 rand) = false := by
          rw [Bool.eq_false_iff]
          intro hc
          rcases (used_iff _ _).1 hc with ⟨e, he, hk⟩
          rcases List.mem_cons.1 he with rfl | he
          · exact hne hk.symm
          · have hin := (List.mem_filter.1 he).1
            have : used cache (flip255 rand) = true := (used_iff _ _).2 ⟨e, hin, hk⟩
            rw [hu'] at this; exact absurd this (by simp)
        simp only [ne_eq, decide_not] at hu2 ⊢
        simp [hu2]
      · simp [hok] at hacc

/-! ## 6. The idealisations are jointly satisfiable with the laws (toy instance) -/

/-- toy primitives: the tag is 16 zero bytes, "X25519" returns the peer value with bit 255 cleared -/
def toy : Crypto where
  gcmSeal := fun _ _ p => p ++ zeros 16
  gcmOpen := fun _ _ c => if 16 ≤ c.length ∧ c.drop (c.length - 16) = zeros 16 then some (c.take (c.length - 16)) else none
  dh := fun _ r => if r.length = 32 then some (clear255 r) else none
  pub := fun _ => zeros 32

example : Lawful toy := by
  refine ⟨?_, ?_, ?_, ?_, ?_, ?_⟩
  · intro k n p; simp [toy, zeros]
  · intro k n c p h
    simp only [toy] at h ⊢
    split at h
    · rename_i hc
      have : p = c.take (c.length - 16) := by simpa using h.symm
      rw [this, ← hc.2, List.take_append_drop]
    · simp at h
  · intro k n p; simp [toy, zeros]
  · intro a b; simp [toy]
  · intro a; simp [toy, zeros]
  · intro a b s h
    simp only [toy] at h
    split at h
    · rename_i hl
      have : s = clear255 b := by simpa using h.symm
      rw [this]; simp [clear255]; omega
    · simp at h

set_option maxRecDepth 10000 in
theorem xor128_and127 : ∀ b : UInt8, (b ^^^ 128) &&& 127 = b &&& 127 := u8_all _ (by decide)

theorem clear_flip (r : Bytes) (hr : r.length = 32) : clear255 (flip255 r) = clear255 r := by
  have h31 : (r.take 31).length = 31 := by simp; omega
  unfold clear255 flip255
  rw [List.take_left' h31, List.drop_left' h31]
  simp [List.map_map, Function.comp_def, xor128_and127]

/-- `INT`, `DH12` and `TopBit` hold of the toy instance over a universe containing a value and its
bit-255 flip: the hypotheses of `c08_once` / `c08_altered` are jointly satisfiable -/
example (r0 : Bytes) (h0 : r0.length = 32) :
    let U := fun r => r = r0 ∨ r = flip255 r0
    INT toy [] U ∧ DH12 toy [] U ∧ TopBit toy [] := by
  intro U
  have hfl : (flip255 r0).length = 32 := by simp [flip255]; omega
  have hUlen : ∀ r, U r → r.length = 32 := by
    intro r hr; rcases hr with rfl | rfl
    · exact h0
    · exact hfl
  have hUc : ∀ r, U r → clear255 r = clear255 r0 := by
    intro r hr; rcases hr with rfl | rfl
    · rfl
    · exact clear_flip r0 h0
  have hUt : ∀ r, U r → r.take 12 = r0.take 12 := by
    intro r hr; rcases hr with rfl | rfl
    · rfl
    · exact flip255_take12 r0 h0
  refine ⟨?_, ?_, ?_⟩
  · intro r r' c p p' hr hr' _ _
    refine ⟨?_, by rw [hUt r hr, hUt r' hr']⟩
    simp [toy, hUlen r hr, hUlen r' hr', hUc r hr, hUc r' hr']
  · intro r r' hr hr' _ _ _ _ _
    rw [hUc r hr, hUc r' hr']
  · intro r hr
    have hfl : (flip255 r).length = 32 := by simp [flip255]; omega
    simp [toy, hr, hfl, clear_flip r hr]

end C08

namespace C08
open Replay HS

/-- non-vacuity of `c08_once`: with the toy primitives, a history that presents a packet, lets the
cleaner pass, and presents the bit-255-flipped copy satisfies every hypothesis of the theorem (and the
copy is indeed refused: one acceptance) -/
def exR : Bytes := List.replicate 31 3 ++ [5]
def exCt : Bytes := HS.mkPlain ⟨List.replicate 16 1, 7, [115], 1, false⟩ 1000 ++ zeros 16
def exH : List CEv := [.present ⟨exR, exCt⟩ 1000000000000, .clean 1001000000000, .present ⟨flip255 exR, exCt⟩ 1002000000000]

set_option maxRecDepth 20000 in
example : (exH.map cclock).Pairwise (· ≤ ·) ∧ (∀ r ∈ randsOf exH, r.length = 32) ∧
    INT toy [] (· ∈ randsOf exH) ∧ DH12 toy [] (· ∈ randsOf exH) ∧
    (∀ a b s, toy.dh a b = some s → s.length = 32) ∧ (crunEv toy [] exH).acc.length = 1 := by
  have h0 : exR.length = 32 := by decide
  have hU : ∀ r, r ∈ randsOf exH ↔ (r = exR ∨ r = flip255 exR) := by
    intro r; simp [exH, randsOf]
  have hUlen : ∀ r, r ∈ randsOf exH → r.length = 32 := by
    intro r hr; rcases (hU r).1 hr with rfl | rfl
    · exact h0
    · simp [flip255]; omega
  have hUc : ∀ r, r ∈ randsOf exH → clear255 r = clear255 exR := by
    intro r hr; rcases (hU r).1 hr with rfl | rfl
    · rfl
    · exact clear_flip exR h0
  have hUt : ∀ r, r ∈ randsOf exH → r.take 12 = exR.take 12 := by
    intro r hr; rcases (hU r).1 hr with rfl | rfl
    · rfl
    · exact flip255_take12 exR h0
  refine ⟨by decide, hUlen, ?_, ?_, ?_, by decide⟩
  · intro r r' c p p' hr hr' _ _
    refine ⟨?_, by rw [hUt r hr, hUt r' hr']⟩
    simp [toy, hUlen r hr, hUlen r' hr', hUc r hr, hUc r' hr']
  · intro r r' hr hr' _ _ _ _ _
    rw [hUc r hr, hUc r' hr']
  · intro a b s h
    simp only [toy] at h
    split at h
    · have : s = clear255 b := by simpa using h.symm
      rw [this]; simp [clear255]; omega
    · simp at h

end C08

#print axioms C08.c08_once
#print axioms C08.c08_retention
#print axioms C08.c08_concurrent
#print axioms C08.c08_altered
#print axioms C08.c08_altered_witness_pinned
