import CloakModel.Model.DgPipe
import CloakModel.Lemmas.DgDemux
import CloakModel.Gen.Deliver

/-! # C14 — Datagram (UDP) mode preserves message boundaries and stream isolation

(1) bridging lemmas: the *extracted* branch conditions of `datagramBufferedPipe.Read/Write` and of
`Stream.Write` mean what the proofs need; structural facts (`gen_structure`);
(2) the executable pipe model is a FIFO of whole datagrams (`Abs`);
(3) the property theorems: `c14_inv`, `c14_fifo_whole`, `c14_short`, `c14_drain`, `c14_oversize`,
`c14_isolation` (+ `sess_sim`: the executable stream table the driver runs is the table of the theorem). -/
set_option linter.unusedSimpArgs false
set_option linter.unusedVariables false

namespace C14
open DG

/-! ## 1. Extracted conditions mean what the proof needs -/

theorem gen_eof (c : Bool) (n : Nat) : Gen.Datagram.dgEOF c (n : Int) = true ↔ (c = true ∧ n = 0) := by
  unfold Gen.Datagram.dgEOF
  simp only [Bool.and_eq_true, Bool.or_eq_true, Bool.not_eq_true', decide_eq_true_eq, decide_eq_false_iff_not]
  constructor <;> rintro ⟨a, b⟩ <;> exact ⟨a, by omega⟩

theorem gen_has (n : Nat) : Gen.Datagram.dgHasData (n : Int) = true ↔ 0 < n := by
  unfold Gen.Datagram.dgHasData
  simp only [Bool.and_eq_true, Bool.or_eq_true, Bool.not_eq_true', decide_eq_true_eq, decide_eq_false_iff_not]
  omega

theorem gen_short (cap l : Nat) : Gen.Datagram.dgShort (cap : Int) (l : Int) = true ↔ cap < l := by
  unfold Gen.Datagram.dgShort
  simp only [Bool.and_eq_true, Bool.or_eq_true, Bool.not_eq_true', decide_eq_true_eq, decide_eq_false_iff_not]
  omega

theorem gen_closing (c : Nat) : Gen.Datagram.dgClosing (c : Int) = true ↔ c ≠ 0 := by
  unfold Gen.Datagram.dgClosing
  simp only [Bool.and_eq_true, Bool.or_eq_true, Bool.not_eq_true', decide_eq_true_eq, decide_eq_false_iff_not, ne_eq]
  omega

theorem gen_fits (len n : Nat) (max : Int) : Gen.Datagram.writeFits (len : Int) (n : Int) max = true ↔ (len : Int) - n ≤ max := by
  unfold Gen.Datagram.writeFits
  simp only [Bool.and_eq_true, Bool.or_eq_true, Bool.not_eq_true', decide_eq_true_eq, decide_eq_false_iff_not]

theorem gen_loop (len n : Nat) : Gen.Datagram.writeLoop (len : Int) (n : Int) = true ↔ n < len := by
  unfold Gen.Datagram.writeLoop
  simp only [Bool.and_eq_true, Bool.or_eq_true, Bool.not_eq_true', decide_eq_true_eq, decide_eq_false_iff_not]
  omega

/-- the per-frame maximum is the on-wire limit minus header (14) and the largest padding+tag (255);
for the limit Cloak's client and server configure (`appDataMaxLength`) that is 16132 -/
theorem gen_max (limit : Int) : Gen.Datagram.maxStreamUnitWrite limit = limit - 269 := by
  unfold Gen.Datagram.maxStreamUnitWrite; omega

theorem gen_max_cloak : DG.maxUnit Gen.Datagram.appDataMaxLengthServer = 16132 ∧
    DG.maxUnit Gen.Datagram.appDataMaxLengthClient = 16132 ∧ DG.maxUnit Gen.Datagram.defaultMaxOnWireSize = 16371 := by
  decide

/-- structural facts of the Go source the model relies on (each is a pattern the extractor matched on the
current tree): order of the short-buffer test and the pop; EOF test first; write: closed test first, the
closing branch stores nothing, length and bytes appended together under the one lock; `Stream.Write`
refuses an oversize datagram before any send and sends a fitting one as exactly one frame; `makeStream`
picks the datagram pipe iff `Unordered`; frames are routed by `frame.StreamID` to that stream's own pipe. -/
theorem gen_structure :
    Gen.Datagram.dgReadTestBeforePop = true ∧ Gen.Datagram.dgReadEOFFirst = true ∧
    Gen.Datagram.dgReadReturnsHeadLen = true ∧ Gen.Datagram.dgReadLocked = true ∧
    Gen.Datagram.dgWriteClosedFirst = true ∧ Gen.Datagram.dgWriteClosingBranch = true ∧
    Gen.Datagram.dgWriteAppendsLenAndBytes = true ∧ Gen.Datagram.dgWriteLocked = true ∧
    Gen.Datagram.dgCloseSets = true ∧ Gen.Datagram.closingNothing = 0 ∧
    Gen.Datagram.unorderedRefusesBeforeSend = true ∧ Gen.Datagram.writeOneFramePerDatagram = true ∧
    Gen.Datagram.makeStreamPicksByUnordered = true ∧ Gen.Datagram.recvDemuxByStreamID = true ∧
    Gen.Datagram.recvFrameWritesOwnPipe = true ∧ Gen.Datagram.streamReadReadsOwnPipe = true := by decide

/-! ## 2. The executable pipe is a FIFO of whole datagrams -/

theorem closing_eq (c : Nat) : Gen.Datagram.dgClosing (c : Int) = decide (c ≠ 0) := by
  rw [Bool.eq_iff_iff, gen_closing]; simp
theorem eof_eq (c : Bool) (n : Nat) : Gen.Datagram.dgEOF c (n : Int) = decide (c = true ∧ n = 0) := by
  rw [Bool.eq_iff_iff, gen_eof]; simp
theorem has_eq (n : Nat) : Gen.Datagram.dgHasData (n : Int) = decide (0 < n) := by
  rw [Bool.eq_iff_iff, gen_has]; simp
theorem short_eq (cap l : Nat) : Gen.Datagram.dgShort (cap : Int) (l : Int) = decide (cap < l) := by
  rw [Bool.eq_iff_iff, gen_short]; simp
theorem fits_eq (len n : Nat) (max : Int) : Gen.Datagram.writeFits (len : Int) (n : Int) max = decide ((len : Int) - n ≤ max) := by
  rw [Bool.eq_iff_iff, gen_fits]; simp
theorem loop_eq (len n : Nat) : Gen.Datagram.writeLoop (len : Int) (n : Int) = decide (n < len) := by
  rw [Bool.eq_iff_iff, gen_loop]; simp

/-- `write` in mathematical form -/
theorem write_eq (p : Pipe) (c : Nat) (d : Bytes) :
    DG.write p c d = if p.closed = true then (p, .refused)
      else if c ≠ 0 then ({ p with closed := true }, .closedNow)
      else ({ p with lens := p.lens ++ [d.length], buf := p.buf ++ d }, .ok) := by
  unfold DG.write
  rw [closing_eq]
  simp only [decide_eq_true_eq]

/-- `read` in mathematical form -/
theorem read_eq (p : Pipe) (cap : Nat) :
    DG.read p cap = match p.lens with
      | [] => if p.closed = true then (p, .eof) else (p, .block)
      | l :: ls => if cap < l then (p, .short)
                   else ({ p with lens := ls, buf := p.buf.drop l }, .data (p.buf.take l)) := by
  unfold DG.read
  rw [eof_eq, has_eq]
  cases hl : p.lens with
  | nil =>
    by_cases hc : p.closed = true <;> simp [hc]
  | cons l ls =>
    simp only [short_eq, decide_eq_true_eq]
    by_cases hs : cap < l <;> simp [hs]

/-- abstract view: the queue of whole datagrams -/
def Abs (p : Pipe) (q : List Bytes) : Prop :=
  p.lens = q.map List.length ∧ p.buf = q.flatten

theorem abs_empty : Abs Pipe.empty [] := ⟨rfl, rfl⟩

theorem write_abs (p : Pipe) (q : List Bytes) (d : Bytes) (h : Abs p q) (hc : p.closed = false) :
    (DG.write p 0 d).2 = .ok ∧ Abs (DG.write p 0 d).1 (q ++ [d]) ∧ (DG.write p 0 d).1.closed = false := by
  rw [write_eq]; simp [hc, Abs, h.1, h.2]

theorem write_closing (p : Pipe) (q : List Bytes) (c : Nat) (d : Bytes) (h : Abs p q) (hc : p.closed = false) (h0 : c ≠ 0) :
    (DG.write p c d).2 = .closedNow ∧ Abs (DG.write p c d).1 q ∧ (DG.write p c d).1.closed = true := by
  rw [write_eq]; simp [hc, h0, Abs, h.1, h.2]

theorem write_closed (p : Pipe) (c : Nat) (d : Bytes) (hc : p.closed = true) :
    DG.write p c d = (p, .refused) := by
  rw [write_eq]; simp [hc]

/-- a read returns exactly the oldest datagram, whole — or leaves everything untouched -/
theorem read_abs (p : Pipe) (q : List Bytes) (cap : Nat) (h : Abs p q) :
    match q with
    | [] => DG.read p cap = (p, if p.closed = true then .eof else .block)
    | d :: ds =>
      if cap < d.length then DG.read p cap = (p, .short)
      else (DG.read p cap).2 = .data d ∧ Abs (DG.read p cap).1 ds ∧ (DG.read p cap).1.closed = p.closed := by
  rw [read_eq]
  cases q with
  | nil =>
    have : p.lens = [] := by simpa using h.1
    simp only [this]
    split <;> simp_all
  | cons d ds =>
    have hl : p.lens = d.length :: ds.map List.length := by simpa using h.1
    have hb : p.buf = d ++ ds.flatten := by simpa using h.2
    simp only [hl]
    split
    · rfl
    · simp [Abs, hb]

/-! ## 3. Property theorems -/

/-- operations on one datagram pipe: a frame arrives (`closing` flag, payload), the application reads
with a buffer of `cap` bytes, or the stream is closed locally -/
inductive Op | w (closing : Nat) (d : Bytes) | r (cap : Nat) | c

/-- what an observer of one stream sees: the pipe, every `Read` result so far, and the datagrams
*accepted* by a write (`Write` returned `(false, nil)`) so far, in order -/
structure Run where
  p : Pipe
  outs : List ROut
  acc : List Bytes

def Run.init : Run := ⟨Pipe.empty, [], []⟩

def step (s : Run) : Op → Run
  | .w c d => ⟨(DG.write s.p c d).1, s.outs, if (DG.write s.p c d).2 = .ok then s.acc ++ [d] else s.acc⟩
  | .r cap => ⟨(DG.read s.p cap).1, s.outs ++ [(DG.read s.p cap).2], s.acc⟩
  | .c => ⟨close s.p, s.outs, s.acc⟩

def run (ops : List Op) : Run := ops.foldl step Run.init

/-- the datagrams returned by successful reads, in order -/
def dataOf : List ROut → List Bytes
  | [] => []
  | .data d :: r => d :: dataOf r
  | _ :: r => dataOf r

theorem dataOf_append (a b : List ROut) : dataOf (a ++ b) = dataOf a ++ dataOf b := by
  induction a with
  | nil => rfl
  | cons x r ih => cases x <;> simp [dataOf, ih]

/-- the FIFO invariant: some queue `q` of whole datagrams is what the pipe holds, and
everything read so far followed by `q` is everything accepted so far -/
def Inv (s : Run) : Prop := ∃ q, Abs s.p q ∧ dataOf s.outs ++ q = s.acc

theorem inv_step (s : Run) (op : Op) (h : Inv s) : Inv (step s op) := by
  obtain ⟨q, ha, hq⟩ := h
  cases op with
  | w c d =>
    cases hc : s.p.closed with
    | true =>
      refine ⟨q, ?_, ?_⟩ <;> simp [step, write_closed s.p c d hc, ha, hq]
    | false =>
      by_cases h0 : c = 0
      · subst h0
        obtain ⟨h1, h2, _⟩ := write_abs s.p q d ha hc
        refine ⟨q ++ [d], h2, ?_⟩
        simp [step, h1, ← hq]
      · obtain ⟨h1, h2, _⟩ := write_closing s.p q c d ha hc h0
        refine ⟨q, h2, ?_⟩
        simp [step, h1, hq]
  | r cap =>
    have hr := read_abs s.p q cap ha
    cases q with
    | nil =>
      simp only at hr
      refine ⟨[], ?_, ?_⟩
      · simp [step, hr, ha]
      · simp only [step, hr, dataOf_append]
        split <;> simpa [dataOf] using hq
    | cons d ds =>
      simp only at hr
      by_cases hcap : cap < d.length
      · rw [if_pos hcap] at hr
        refine ⟨d :: ds, ?_, ?_⟩
        · simp [step, hr, ha]
        · simp only [step, hr, dataOf_append]; simpa [dataOf] using hq
      · rw [if_neg hcap] at hr
        obtain ⟨h1, h2, _⟩ := hr
        refine ⟨ds, h2, ?_⟩
        simp only [step, h1, dataOf_append, dataOf]
        simpa using hq
  | c =>
    refine ⟨q, ?_, hq⟩
    exact ⟨ha.1, ha.2⟩

theorem inv_run (ops : List Op) (s : Run) (h : Inv s) : Inv (ops.foldl step s) := by
  induction ops generalizing s with
  | nil => exact h
  | cons op r ih => exact ih _ (inv_step s op h)

theorem sum_map_length (q : List Bytes) : (q.map List.length).sum = q.flatten.length := by
  rw [List.length_flatten]

/-- **C14 (bookkeeping invariant).** In every reachable state of the pipe — after ANY sequence of
arriving frames (data or closing), reads with any buffer sizes (short ones included) and a local close —
the byte buffer holds exactly as many bytes as the length queue announces. -/
theorem c14_inv (ops : List Op) : (run ops).p.buf.length = (run ops).p.lens.sum := by
  obtain ⟨q, ha, _⟩ := inv_run ops Run.init ⟨[], abs_empty, rfl⟩
  show (ops.foldl step Run.init).p.buf.length = (ops.foldl step Run.init).p.lens.sum
  rw [ha.1, ha.2, sum_map_length]

/-- **C14 (whole messages, FIFO, at most once).** After ANY operation sequence: the datagrams returned
by the successful reads so far (in order), followed by the datagrams still queued, are exactly the
datagrams the pipe accepted, in arrival order — each one whole and with identical content; the pipe's
contents are exactly those queued datagrams laid end to end.  So nothing is merged, split, truncated,
duplicated, reordered within the stream, or consumed by a short read. -/
theorem c14_fifo_whole (ops : List Op) :
    ∃ q : List Bytes, dataOf (run ops).outs ++ q = (run ops).acc ∧
      (run ops).p.lens = q.map List.length ∧ (run ops).p.buf = q.flatten := by
  obtain ⟨q, ha, hq⟩ := inv_run ops Run.init ⟨[], abs_empty, rfl⟩
  exact ⟨q, hq, ha.1, ha.2⟩

/-- **C14 (short read is non-destructive).** If the next datagram is `d` and the buffer is too small, the
read reports `ErrShortBuffer` and the state is *unchanged*; consequently any later read with an adequate
buffer returns `d` intact. -/
theorem c14_short (p : Pipe) (d : Bytes) (ds : List Bytes) (h : Abs p (d :: ds)) (cap : Nat) (hcap : cap < d.length) :
    DG.read p cap = (p, .short) ∧
    ∀ cap', d.length ≤ cap' → (DG.read (DG.read p cap).1 cap').2 = .data d ∧ Abs (DG.read (DG.read p cap).1 cap').1 ds := by
  have h1 := read_abs p (d :: ds) cap h
  simp only [hcap, if_true] at h1
  refine ⟨h1, ?_⟩
  intro cap' hc'
  rw [h1]
  have h2 := read_abs p (d :: ds) cap' h
  simp only [Nat.not_lt.2 hc', if_false] at h2
  exact ⟨h2.1, h2.2.1⟩

/-! ### the same clause at the `Stream.Read` level: the empty buffer

`Stream.Read` answers an empty buffer `(0, nil)` before it asks the pipe (`Gen.Datagram.streamReadEmptyBufIsNoop`, the
`io.Reader` convention). With a datagram pending, a 0-byte buffer is "a read buffer too small for the next datagram",
and no error is reported: the clause at full strength is false at exactly that point (`c14_stream_short_witness`; known
finding, replayed by ./check C14). Nothing is consumed or truncated there either; for every non-empty buffer the stream's
read IS the pipe's read, and `c14_short` applies (`c14_stream_short_partial`). -/

/-- the source has the shortcut -/
theorem gen_stream_read_empty : Gen.Datagram.streamReadEmptyBufIsNoop = true := by decide

/-- the clause for `Stream.Read`, at full strength: EVERY buffer smaller than the next datagram gets the error and
leaves the stream as it was -/
def c14_stream_short_full : Prop :=
  ∀ (s : Sess) (sid : Nat) (p : Pipe) (d : Bytes) (ds : List Bytes) (cap : Nat),
    s.get sid = some p → Abs p (d :: ds) → cap < d.length → (s.sread sid cap).2 = .r .short

theorem sread_pos (s : Sess) (sid cap : Nat) (h : 0 < cap) : s.sread sid cap = s.read sid cap := by
  unfold Sess.sread
  have : (cap == 0) = false := by simp; omega
  simp [this]

/-- **C14 (short read at the stream, non-empty buffers).** The error is reported and the stream's pipe is put back as it was -/
theorem c14_stream_short_partial (s : Sess) (sid : Nat) (p : Pipe) (d : Bytes) (ds : List Bytes) (cap : Nat)
    (hs : s.get sid = some p) (h : Abs p (d :: ds)) (hcap : cap < d.length) (hpos : 0 < cap) :
    s.sread sid cap = (s.set sid p, .r .short) := by
  rw [sread_pos s sid cap hpos]
  have h1 := (c14_short p d ds h cap hcap).1
  simp [Sess.read, hs, h1]

/-- the empty buffer: a 1-byte datagram pending, `Stream.Read` with a 0-byte buffer reports no error (and consumes nothing) -/
theorem c14_stream_short_witness : ¬ c14_stream_short_full := by
  intro h
  have hg := gen_stream_read_empty
  have := h [(1, ⟨[1], [7], false⟩)] 1 ⟨[1], [7], false⟩ [7] [] 0 (by decide) ⟨rfl, rfl⟩ (by decide)
  revert this
  decide

/-- ... and the datagram is still there: the next read with a fitting buffer returns it whole -/
theorem c14_stream_zero_keeps (s : Sess) (sid : Nat) : (s.sread sid 0).1 = s ∨ (s.sread sid 0) = s.read sid 0 := by
  unfold Sess.sread
  split
  · split <;> exact Or.inl rfl
  · exact Or.inr rfl

/-- reading with adequate buffers drains the queue: exactly the queued datagrams, each once -/
def drain (p : Pipe) : List Nat → Pipe × List ROut
  | [] => (p, [])
  | cap :: r => ((drain (DG.read p cap).1 r).1, (DG.read p cap).2 :: (drain (DG.read p cap).1 r).2)

/-- **C14 (exactly once while open).** From any state whose queue is `q`, `|q|` reads whose buffers are
large enough return exactly `q` — every accepted datagram is delivered, once — and leave the pipe empty. -/
theorem c14_drain : ∀ (q : List Bytes) (p : Pipe) (caps : List Nat), Abs p q → caps.length = q.length →
    (∀ x ∈ q.zip caps, x.1.length ≤ x.2) →
    (drain p caps).2 = q.map ROut.data ∧ Abs (drain p caps).1 [] := by
  intro q
  induction q with
  | nil =>
    intro p caps h hl _
    have : caps = [] := by cases caps with | nil => rfl | cons _ _ => simp at hl
    subst this; exact ⟨rfl, h⟩
  | cons d ds ih =>
    intro p caps h hl hcap
    cases caps with
    | nil => simp at hl
    | cons cap rest =>
      have h0 : d.length ≤ cap := hcap (d, cap) (by simp)
      have hr := read_abs p (d :: ds) cap h
      simp only [Nat.not_lt.2 h0, if_false] at hr
      obtain ⟨h1, h2, _⟩ := hr
      have := ih (DG.read p cap).1 rest h2 (by simpa using hl)
        (fun x hx => hcap x (by simp [hx]))
      simp only [drain, h1, List.map_cons]
      exact ⟨by rw [this.1], this.2⟩

/-- one iteration of the `Stream.Write` loop, conditions in mathematical form -/
theorem swriteLoop_succ (u : Bool) (max : Int) (inp : Bytes) (fuel n : Nat) (sent : List Bytes) :
    swriteLoop u max inp (fuel + 1) n sent =
      if n < inp.length then
        if (inp.length : Int) - n ≤ max then swriteLoop u max inp fuel inp.length (sent ++ [inp.drop n])
        else if u = true then (sent, .errShortBuffer)
        else swriteLoop u max inp fuel (n + max.toNat) (sent ++ [(inp.drop n).take max.toNat])
      else (sent, .ok) := by
  rw [swriteLoop, loop_eq, fits_eq]
  simp only [decide_eq_true_eq]

/-- **C14 (oversize refused, fitting sent as one frame).** In unordered mode `Stream.Write` of a datagram
longer than the per-frame maximum emits no frame and reports `io.ErrShortBuffer`; a non-empty datagram
that fits is emitted as exactly one frame whose payload is the datagram. -/
theorem c14_oversize (max : Int) (inp : Bytes) :
    ((inp.length : Int) > max → 0 < inp.length → swrite true max inp = ([], .errShortBuffer)) ∧
    (0 < inp.length → (inp.length : Int) ≤ max → swrite true max inp = ([inp], .ok)) := by
  constructor
  · intro hgt hpos
    unfold swrite
    rw [swriteLoop_succ]
    have : ¬ ((inp.length : Int) - ((0 : Nat) : Int) ≤ max) := by omega
    rw [if_pos hpos, if_neg this]; simp
  · intro hpos hle
    unfold swrite
    rw [swriteLoop_succ]
    have h1 : (inp.length : Int) - ((0 : Nat) : Int) ≤ max := by omega
    rw [if_pos hpos, if_pos h1]
    cases hlen : inp.length with
    | zero => omega
    | succ k =>
      rw [swriteLoop_succ]
      simp [hlen]

/-- with Cloak's configured limit the boundary is 16132 / 16133 bytes -/
theorem c14_oversize_cloak (inp : Bytes) :
    (inp.length = 16133 → swrite true (DG.maxUnit Gen.Datagram.appDataMaxLengthServer) inp = ([], .errShortBuffer)) ∧
    (inp.length = 16132 → swrite true (DG.maxUnit Gen.Datagram.appDataMaxLengthServer) inp = ([inp], .ok)) := by
  rw [gen_max_cloak.1]
  exact ⟨fun h => (c14_oversize 16132 inp).1 (by omega) (by omega), fun h => (c14_oversize 16132 inp).2 (by omega) (by omega)⟩

/-! ### Stream isolation -/

abbrev GEv := DgDemux.GEv Op

/-- the receiving session as a table of per-stream observers; a delivered frame creates the stream,
an application read or local close does not -/
def gstep : (Nat → Option Run) → GEv → Nat → Option Run := DgDemux.gstep step Run.init
def lstep : Option Run → GEv → Option Run := DgDemux.lstep step Run.init

/-- a per-stream run that starts with no stream is, once created, a plain single-stream run -/
theorem lrun_inv : ∀ (evs : List GEv) (st : Option Run), (∀ s, st = some s → Inv s) →
    ∀ s, evs.foldl lstep st = some s → Inv s := by
  intro evs
  induction evs with
  | nil => intro st h s hs; exact h s hs
  | cons e r ih =>
    intro st h s hs
    refine ih (lstep st e) ?_ s hs
    intro s' hs'
    cases st with
    | some s0 =>
      simp only [lstep, DgDemux.lstep] at hs'
      cases hs'; exact inv_step s0 e.op (h s0 rfl)
    | none =>
      simp only [lstep, DgDemux.lstep] at hs'
      by_cases hc : e.creates = true
      · simp only [hc, if_true] at hs'
        cases hs'; exact inv_step _ e.op ⟨[], abs_empty, rfl⟩
      · simp [hc] at hs'

/-- datagrams accepted by a per-stream run are payloads of frames addressed to it, in order -/
def payloads : List GEv → List Bytes
  | [] => []
  | e :: r => match e.op with
    | .w _ d => d :: payloads r
    | _ => payloads r

theorem step_acc_sub (s : Run) (op : Op) :
    (step s op).acc = s.acc ∨ ∃ c d, op = .w c d ∧ (step s op).acc = s.acc ++ [d] := by
  cases op with
  | w c d =>
    by_cases h : (DG.write s.p c d).2 = .ok
    · exact Or.inr ⟨c, d, rfl, by simp [step, h]⟩
    · exact Or.inl (by simp [step, h])
  | r cap => exact Or.inl rfl
  | c => exact Or.inl rfl

theorem lrun_acc : ∀ (evs : List GEv) (st : Option Run) (pre : List Bytes),
    (∀ s, st = some s → s.acc.Sublist pre) →
    ∀ s, evs.foldl lstep st = some s → s.acc.Sublist (pre ++ payloads evs) := by
  intro evs
  induction evs with
  | nil => intro st pre h s hs; simpa [payloads] using h s hs
  | cons e r ih =>
    intro st pre h s hs
    have key : ∀ s', lstep st e = some s' → s'.acc.Sublist (pre ++ payloads [e]) := by
      intro s' hs'
      have base : ∀ s0 : Run, s0.acc.Sublist pre → (step s0 e.op).acc.Sublist (pre ++ payloads [e]) := by
        intro s0 h0
        rcases step_acc_sub s0 e.op with h1 | ⟨c, d, hop, h1⟩
        · rw [h1]; exact h0.trans (List.sublist_append_left _ _)
        · rw [h1]; simp only [payloads, hop]
          exact List.Sublist.append h0 (List.Sublist.refl _)
      cases st with
      | some s0 =>
        simp only [lstep, DgDemux.lstep] at hs'; cases hs'; exact base s0 (h s0 rfl)
      | none =>
        simp only [lstep, DgDemux.lstep] at hs'
        by_cases hc : e.creates = true
        · simp only [hc, if_true] at hs'; cases hs'
          exact base Run.init (by simp [Run.init])
        · simp [hc] at hs'
    have := ih (lstep st e) (pre ++ payloads [e]) key s hs
    have hp : payloads (e :: r) = payloads [e] ++ payloads r := by
      simp only [payloads]; cases e.op <;> simp
    rw [hp, ← List.append_assoc]; exact this

/-- **C14 (stream isolation).** After ANY global interleaving of frame deliveries, reads and local
closes on any number of streams, what stream `sid` holds and has returned is exactly what a single
stream fed with only the events addressed to `sid` would hold and have returned (demux lemma); hence
(FIFO invariant of that run) everything it returned followed by what it still queues is what it
accepted, and what it accepted is a subsequence — in order — of the payloads of the frames addressed
to `sid`.  No datagram of another stream can appear, whole or in part. -/
theorem c14_isolation (evs : List GEv) (sid : Nat) :
    (evs.foldl gstep (fun _ => none)) sid = (DgDemux.proj sid evs).foldl lstep none ∧
    ∀ s, (evs.foldl gstep (fun _ => none)) sid = some s →
      (∃ q, dataOf s.outs ++ q = s.acc ∧ s.p.lens = q.map List.length ∧ s.p.buf = q.flatten) ∧
      s.acc.Sublist (payloads (DgDemux.proj sid evs)) := by
  have hiso := DgDemux.isolation step Run.init sid evs (fun _ => none)
  refine ⟨hiso, ?_⟩
  intro s hs
  have hs' : (DgDemux.proj sid evs).foldl lstep none = some s := by
    have : (evs.foldl gstep (fun _ => none)) sid = (DgDemux.proj sid evs).foldl lstep none := hiso
    rw [← this]; exact hs
  constructor
  · obtain ⟨q, ha, hq⟩ := lrun_inv (DgDemux.proj sid evs) none (by intro s h; cases h) s hs'
    exact ⟨q, hq, ha.1, ha.2⟩
  · simpa using lrun_acc (DgDemux.proj sid evs) none [] (by intro s h; cases h) s hs'

/-! ### non-vacuity -/

/-- two datagrams, a too-small read in between, a closing frame, reads to the end: the script satisfies nothing but
"any op list", and the model really returns `short, [1,2,3], [4], eof` -/
example :
    let ops := [Op.w 0 [1, 2, 3], .w 0 [4], .r 2, .r 3, .w 1 [9], .w 0 [7], .r 5, .r 1]
    (run ops).outs = [.short, .data [1, 2, 3], .data [4], .eof] ∧ (run ops).acc = [[1, 2, 3], [4]] := by
  decide

/-- `c14_short`'s hypotheses are satisfiable: a pipe holding `[1,2,3]` then `[4]`, read with a 2-byte buffer -/
example : Abs ⟨[3, 1], [1, 2, 3, 4], false⟩ ([1, 2, 3] :: [[4]]) ∧ (2 : Nat) < ([1, 2, 3] : Bytes).length := by
  refine ⟨⟨rfl, rfl⟩, by decide⟩

/-- `c14_oversize` at a small maximum -/
example : swrite true 3 [1, 2, 3, 4] = ([], .errShortBuffer) ∧ swrite true 3 [1, 2, 3] = ([[1, 2, 3]], .ok) ∧
    swrite false 3 [1, 2, 3, 4] = ([[1, 2, 3], [4]], .ok) := by decide

/-! ### exactly once, per stream, while the stream stays open -/

/-- an event that keeps its stream open: a data frame (which may create the stream) or an application read -/
def OpenEv (e : GEv) : Prop :=
  match e.op with
  | .w c _ => c = 0 ∧ e.creates = true
  | .r _ => e.creates = false
  | .c => False

theorem step_open_w (s : Run) (d : Bytes) (h : s.p.closed = false) :
    (step s (.w 0 d)).p.closed = false ∧ (step s (.w 0 d)).acc = s.acc ++ [d] := by
  simp [step, write_eq, h]

theorem step_open_r (s : Run) (cap : Nat) (h : s.p.closed = false) :
    (step s (.r cap)).p.closed = false ∧ (step s (.r cap)).acc = s.acc := by
  refine ⟨?_, rfl⟩
  simp only [step, read_eq]
  cases hl : s.p.lens with
  | nil => simp [h]
  | cons l ls => simp only; split <;> simp [h]

theorem lrun_open : ∀ (evs : List GEv) (st : Option Run) (pre : List Bytes), (∀ e ∈ evs, OpenEv e) →
    (∀ s, st = some s → s.p.closed = false ∧ s.acc = pre) → (st = none → pre = []) →
    (∀ s, evs.foldl lstep st = some s → s.p.closed = false ∧ s.acc = pre ++ payloads evs) ∧
    (evs.foldl lstep st = none → pre ++ payloads evs = []) := by
  intro evs
  induction evs with
  | nil =>
    intro st pre _ h hn
    exact ⟨fun s hs => by simpa [payloads] using h s hs, fun hs => by simpa [payloads] using hn hs⟩
  | cons e r ih =>
    intro st pre hev h hn
    have he : OpenEv e := hev e (by simp)
    have hr : ∀ e' ∈ r, OpenEv e' := fun e' h' => hev e' (by simp [h'])
    simp only [List.foldl_cons]
    cases hop : e.op with
    | w c d =>
      have hc : c = 0 ∧ e.creates = true := by simpa [OpenEv, hop] using he
      obtain ⟨hc0, hcr⟩ := hc
      subst hc0
      have hp : payloads (e :: r) = d :: payloads r := by simp [payloads, hop]
      cases st with
      | some s0 =>
        obtain ⟨h1, h2⟩ := h s0 rfl
        have hs := step_open_w s0 d h1
        have := ih (lstep (some s0) e) (pre ++ [d]) hr
          (by intro s hs'; simp only [lstep, DgDemux.lstep, hop] at hs'; cases hs'; exact ⟨hs.1, by rw [hs.2, h2]⟩)
          (by intro hh; simp [lstep, DgDemux.lstep] at hh)
        rw [hp]; simpa using this
      | none =>
        have hpre := hn rfl
        subst hpre
        have hs := step_open_w Run.init d rfl
        have := ih (lstep none e) [d] hr
          (by intro s hs'; simp only [lstep, DgDemux.lstep, hcr, if_true, hop] at hs'; cases hs'; exact ⟨hs.1, by rw [hs.2]; rfl⟩)
          (by intro hh; simp [lstep, DgDemux.lstep, hcr] at hh)
        rw [hp]; simpa using this
    | r cap =>
      have hcr : e.creates = false := by simpa [OpenEv, hop] using he
      have hp : payloads (e :: r) = payloads r := by simp [payloads, hop]
      cases st with
      | some s0 =>
        obtain ⟨h1, h2⟩ := h s0 rfl
        have hs := step_open_r s0 cap h1
        have := ih (lstep (some s0) e) pre hr
          (by intro s hs'; simp only [lstep, DgDemux.lstep, hop] at hs'; cases hs'; exact ⟨hs.1, by rw [hs.2, h2]⟩)
          (by intro hh; simp [lstep, DgDemux.lstep] at hh)
        rw [hp]; exact this
      | none =>
        have := ih (lstep none e) pre hr
          (by intro s hs'; simp [lstep, DgDemux.lstep, hcr] at hs')
          (by intro _; exact hn rfl)
        rw [hp]; exact this
    | c => simp [OpenEv, hop] at he

/-- **C14 (exactly once, whole, per stream, any interleaving).** Let frames and reads for any number of streams be
interleaved in ANY way (any arrival order across connections, any scheduling of the readers).  If the events
addressed to stream `sid` are data frames and reads only (the stream stays open), then at the end the datagrams its
reads returned (in order), followed by the datagrams still queued in its pipe, are EXACTLY the payloads of the
frames addressed to `sid`, in their arrival order: each delivered datagram comes out once, whole, unmixed — and
reads with adequate buffers (`c14_drain`) fetch the queued rest. -/
theorem c14_exactly_once (evs : List GEv) (sid : Nat) (hopen : ∀ e ∈ DgDemux.proj sid evs, OpenEv e) :
    ∀ s, (evs.foldl gstep (fun _ => none)) sid = some s →
      s.p.closed = false ∧
      ∃ q, dataOf s.outs ++ q = payloads (DgDemux.proj sid evs) ∧ s.p.lens = q.map List.length ∧ s.p.buf = q.flatten := by
  intro s hs
  obtain ⟨hiso, hrest⟩ := c14_isolation evs sid
  obtain ⟨⟨q, hq, hl, hb⟩, _⟩ := hrest s hs
  have hs' : (DgDemux.proj sid evs).foldl lstep none = some s := by rw [← hiso]; exact hs
  have := (lrun_open (DgDemux.proj sid evs) none [] hopen (by intro s h; cases h) (fun _ => rfl)).1 s hs'
  refine ⟨this.1, q, ?_, hl, hb⟩
  rw [hq, this.2]; simp

/-- non-vacuity of `c14_isolation` / `c14_exactly_once`: frames of streams 1 and 2 interleaved, a short read on 1 -/
example :
    let evs : List GEv := [⟨1, .w 0 [1, 1], true⟩, ⟨2, .w 0 [2], true⟩, ⟨1, .r 1, false⟩, ⟨2, .w 0 [2, 2, 2], true⟩,
                           ⟨1, .w 0 [1], true⟩, ⟨2, .r 9, false⟩, ⟨1, .r 2, false⟩]
    (∀ e ∈ DgDemux.proj 1 evs, OpenEv e) ∧
    ((evs.foldl gstep (fun _ => none)) 1).map (fun s => (s.outs, s.p.lens)) = some ([.short, .data [1, 1]], [1]) ∧
    ((evs.foldl gstep (fun _ => none)) 2).map (fun s => (s.outs, s.p.lens)) = some ([.data [2]], [3]) := by
  refine ⟨?_, by decide, by decide⟩
  intro e he
  simp [DgDemux.proj] at he
  rcases he with h | h | h | h <;> subst h <;> simp [OpenEv]

/-! ### The executable stream table (what the driver runs) is the table of the theorem -/

theorem get_set (s : Sess) (sid sid' : Nat) (p : Pipe) :
    (s.set sid p).get sid' = if sid' = sid then some p else s.get sid' := by
  induction s with
  | nil =>
    simp only [Sess.set, Sess.get]
    by_cases h : sid = sid'
    · simp [h]
    · have : ¬ sid' = sid := fun hh => h hh.symm
      simp [h, this]
  | cons e r ih =>
    obtain ⟨k, q⟩ := e
    simp only [Sess.set]
    by_cases hk : k = sid
    · subst hk
      simp only [if_true, Sess.get]
      by_cases h : k = sid'
      · simp [h]
      · have : ¬ sid' = k := fun hh => h hh.symm
        simp [h, this]
    · simp only [hk, if_false, Sess.get]
      by_cases h : k = sid'
      · have : ¬ sid' = sid := fun hh => hk (h.trans hh)
        simp [h, this]
      · simp [h, ih]

/-- events as the environment produces them: a delivered frame may create its stream, a read or a local
close never does -/
def WF (e : GEv) : Prop := e.creates = (match e.op with | .w _ _ => true | _ => false)

/-- executable global step on the assoc-list table (`DG.Sess`, run by the driver for `dg.s*` ops) -/
def sstep (s : Sess) (e : GEv) : Sess :=
  match e.op with
  | .w c d => (s.deliver ⟨e.sid, c, d⟩).1
  | .r cap => (s.read e.sid cap).1
  | .c => match s.get e.sid with
      | some p => s.set e.sid (close p)
      | none => s

theorem sess_sim : ∀ (evs : List GEv) (s : Sess) (tbl : Nat → Option Run), (∀ e ∈ evs, WF e) →
    (∀ sid, s.get sid = (tbl sid).map (·.p)) →
    ∀ sid, (evs.foldl sstep s).get sid = ((evs.foldl gstep tbl) sid).map (·.p) := by
  intro evs
  induction evs with
  | nil => intro s tbl _ h sid; exact h sid
  | cons e r ih =>
    intro s tbl hwf h sid
    simp only [List.foldl_cons]
    apply ih _ _ (fun e' he' => hwf e' (by simp [he']))
    intro sid'
    have he := h e.sid
    have hw : WF e := hwf e (by simp)
    simp only [gstep, DgDemux.gstep]
    by_cases hs : sid' = e.sid
    · subst hs
      simp only [if_true]
      cases ht : tbl e.sid with
      | some st =>
        rw [ht] at he; simp only [Option.map_some] at he
        cases hop : e.op with
        | w c d => simp [sstep, hop, Sess.deliver, he, get_set, step]
        | r cap => simp [sstep, hop, Sess.read, he, get_set, step]
        | c => simp [sstep, hop, he, get_set, step]
      | none =>
        rw [ht] at he; simp only [Option.map_none] at he
        cases hop : e.op with
        | w c d =>
          have hc : e.creates = true := by simpa [WF, hop] using hw
          simp [sstep, hop, hc, Sess.deliver, he, get_set, step, Run.init]
        | r cap =>
          have hc : e.creates = false := by simpa [WF, hop] using hw
          simp [sstep, hop, Sess.read, he, hc]
        | c =>
          have hc : e.creates = false := by simpa [WF, hop] using hw
          simp [sstep, hop, he, hc]
    · simp only [hs, if_false]
      have : (sstep s e).get sid' = s.get sid' := by
        unfold sstep
        cases e.op with
        | w c d => simp only [Sess.deliver]; split <;> simp [get_set, hs]
        | r cap => simp only [Sess.read]; split <;> simp [get_set, hs]
        | c => simp only; split <;> simp [get_set, hs]
      rw [this]; exact h sid'

/-! ## 4. Where a datagram enters a stream from a UDP socket (`client.RouteUDP`, `Stream.ReadFrom`)

`c14_oversize` is about `Stream.Write`.  A datagram of a local UDP socket reaches the stream through a read
into a buffer first, and a packet socket silently cuts the datagram to that buffer.  `EntryWhole` is the
property's sentence for such an entry point, at full strength: *every* non-empty datagram that fits one frame
goes out whole as exactly one frame, *every* larger one is refused and nothing goes out. -/

/-- the full statement for an entry point `f` (datagram ↦ frames emitted, error) -/
def EntryWhole (max : Int) (f : Bytes → List Bytes × SOut) : Prop :=
  ∀ d : Bytes, 0 < d.length →
    ((d.length : Int) ≤ max → f d = ([d], .ok)) ∧ ((d.length : Int) > max → f d = ([], .errShortBuffer))

theorem pktRead_whole (cap : Nat) (d : Bytes) (h : d.length ≤ cap) : pktRead cap d = d := by
  unfold pktRead; exact List.take_of_length_le h

theorem pktRead_length (cap : Nat) (d : Bytes) : (pktRead cap d).length = min cap d.length := by
  unfold pktRead; exact List.length_take

/-- an entry buffer longer than the per-frame maximum makes `RouteUDP` whole: what fits a frame is read whole, and
what does not fit is still longer than the maximum after the cut, so `Stream.Write` refuses it -/
theorem entry_whole_of (buf : Nat) (max : Int) (h0 : 0 < buf) (h : max < (buf : Int)) : EntryWhole max (udpEntryAt buf max) := by
  intro d hpos
  unfold udpEntryAt
  constructor
  · intro hle
    rw [pktRead_whole buf d (by omega)]
    exact (c14_oversize max d).2 hpos hle
  · intro hgt
    have hl := pktRead_length buf d
    refine (c14_oversize max (pktRead buf d)).1 ?_ ?_
    · rw [hl]; omega
    · rw [hl]; omega

/-- with a buffer that is NOT longer than the maximum, a longer datagram goes out as a frame holding only its
first `buf` bytes — accepted, truncated, delivered -/
theorem entry_truncates (buf : Nat) (max : Int) (d : Bytes) (hb : 0 < buf) (h1 : buf < d.length) (h2 : (buf : Int) ≤ max) :
    udpEntryAt buf max d = ([d.take buf], .ok) ∧ (d.take buf).length = buf := by
  have hl := pktRead_length buf d
  unfold udpEntryAt
  refine ⟨?_, ?_⟩
  · have := (c14_oversize max (pktRead buf d)).2 (by rw [hl]; omega) (by rw [hl]; omega)
    simpa [pktRead] using this
  · rw [List.length_take]; omega

/-- facts of `client.RouteUDP`: the entry buffer is longer than the largest datagram one frame can carry with the
client's on-wire limit, in fact at least the largest UDP payload (65507); the bytes read are the bytes written;
a refusal drops the stream and the loop goes on (behaviour kept) -/
theorem gen_entry :
    Gen.Datagram.routeUDPBufLen ≥ DG.maxUnit Gen.Datagram.appDataMaxLengthClient + 1 ∧
    Gen.Datagram.routeUDPBufLen ≥ 65507 ∧
    Gen.Datagram.routeUDPWritesWhatWasRead = true ∧ Gen.Datagram.routeUDPRefusalDropsStream = true := by decide

/-- per-stream goroutines of the UDP path own the values they work on ("never ... mixed with ... another stream's data") -/
theorem gen_goroutines_own_values :
    Gen.Deliver.serveSessionGoroutinesOwnTheirValues = true ∧ Gen.Deliver.routeUDPGoroutinesOwnTheirValues = true := by decide

/-- the way back (`RouteUDP`'s per-stream goroutine): its read buffer holds the largest datagram one frame can carry with the
client's on-wire limit, so by `c14_short_buffer_keeps`/`c14_exactly_once` no datagram the peer's `Write` accepted is refused
by that read (8192 bytes before /repo's fix: datagrams of 8193..16132 bytes ended the stream undelivered) -/
theorem gen_return :
    Gen.Datagram.routeUDPReturnBufLen ≥ DG.maxUnit Gen.Datagram.appDataMaxLengthClient ∧
    Gen.Datagram.routeUDPReturnWritesWhatWasRead = true := by decide

/-- **C14 (UDP entry of the client).** `client.RouteUDP` on a session with Cloak's on-wire limit: every datagram of
1..16132 bytes read from the local socket is sent whole as one frame, every longer one is refused by `Stream.Write`
and nothing is sent. -/
theorem c14_entry_whole :
    EntryWhole (DG.maxUnit Gen.Datagram.appDataMaxLengthClient) (udpEntry (DG.maxUnit Gen.Datagram.appDataMaxLengthClient)) := by
  have h := gen_entry.1
  have hm := gen_max_cloak.2.1
  unfold udpEntry
  rw [hm] at h ⊢
  apply entry_whole_of <;> omega

/-- for every session limit: any datagram UDP can carry (≤ 65507 bytes) passes the entry buffer untouched, so
`c14_oversize` decides about it -/
theorem c14_entry_transparent (max : Int) (d : Bytes) (h : d.length ≤ 65507) : udpEntry max d = swrite true max d := by
  have hb := gen_entry.2.1
  unfold udpEntry udpEntryAt
  rw [pktRead_whole _ d (by omega)]

/-- the pinned tree read the socket with `make([]byte, 8192)`: the statement is false for it (an 8193-byte datagram
fits a frame and goes out as an 8192-byte message) -/
theorem entry_not_whole (buf : Nat) (max : Int) (hb : 0 < buf) (h2 : (buf : Int) < max) : ¬ EntryWhole max (udpEntryAt buf max) := by
  intro h
  have hlen : (List.replicate (buf + 1) (0 : UInt8)).length = buf + 1 := List.length_replicate
  have h1 := (h (List.replicate (buf + 1) 0) (by rw [hlen]; omega)).1 (by rw [hlen]; omega)
  have h2 := entry_truncates buf max (List.replicate (buf + 1) 0) hb (by rw [hlen]; omega) (by omega)
  rw [h2.1] at h1
  have h3 : (List.take buf (List.replicate (buf + 1) (0 : UInt8))).length = (List.replicate (buf + 1) (0 : UInt8)).length := by
    have := congrArg (fun x : List Bytes × SOut => x.1.map List.length) h1
    simpa using this
  rw [h2.2, hlen] at h3
  omega

theorem c14_entry_pinned_witness : ¬ EntryWhole 16132 (udpEntryAt 8192 16132) :=
  entry_not_whole 8192 16132 (by omega) (by omega)

/-- … and every datagram longer than 8192 bytes went out as its first 8192 bytes, whatever its size -/
theorem c14_entry_pinned_truncates (d : Bytes) (h : 8192 < d.length) :
    udpEntryAt 8192 16132 d = ([d.take 8192], .ok) ∧ (d.take 8192).length = 8192 :=
  entry_truncates 8192 16132 d (by omega) h (by omega)

/-- small-scale instance: buffer 3, maximum 5 — a 4-byte datagram is truncated; buffer 6 — whole, and 6 bytes refused -/
example : udpEntryAt 3 5 [1, 2, 3, 4] = ([[1, 2, 3]], .ok) ∧ udpEntryAt 6 5 [1, 2, 3, 4] = ([[1, 2, 3, 4]], .ok) ∧
    udpEntryAt 6 5 [1, 2, 3, 4, 5, 6] = ([], .errShortBuffer) ∧ udpEntryAt 6 5 [1, 2, 3, 4, 5, 6, 7, 8] = ([], .errShortBuffer) := by decide

/-! ### `Stream.ReadFrom` -/

/-- facts of `Stream.ReadFrom`: a packet source on an unordered session is read with ONE byte more than a frame can
carry; every other source with exactly the maximum (byte-stream behaviour unchanged); the bytes read are the frame -/
theorem gen_readfrom (max : Int) :
    Gen.Datagram.readFromLen max true true = max + 1 ∧ Gen.Datagram.readFromLen max true false = max ∧
    Gen.Datagram.readFromLen max false true = max ∧ Gen.Datagram.readFromLen max false false = max ∧
    Gen.Datagram.readFromSendsWhatWasRead = true := by
  exact ⟨by simp [Gen.Datagram.readFromLen], by simp [Gen.Datagram.readFromLen], by simp [Gen.Datagram.readFromLen],
    by simp [Gen.Datagram.readFromLen], by decide⟩

/-- the size test after the read: more than a frame can carry → `io.ErrShortBuffer` before anything is sent -/
theorem gen_readfrom_refuses (r max : Int) : Gen.Datagram.readFromRefuses r max = decide (r > max) := by
  unfold Gen.Datagram.readFromRefuses
  first
  | rfl
  | (rw [Bool.eq_iff_iff]; simp only [decide_eq_true_eq]; omega)

/-- the longer read still lies inside the pooled send buffer (`make([]byte, streamSendBufferSize)`): no slice panic -/
theorem gen_readfrom_room (limit : Int) (p u : Bool) :
    Gen.Datagram.frameHeaderLen + Gen.Datagram.readFromLen (Gen.Datagram.maxStreamUnitWrite limit) p u
      ≤ Gen.Datagram.streamSendBufferSize limit := by
  have h := gen_readfrom (Gen.Datagram.maxStreamUnitWrite limit)
  have hm := gen_max limit
  have hh : Gen.Datagram.frameHeaderLen = 14 := by decide
  unfold Gen.Datagram.streamSendBufferSize
  rw [hh]
  cases p <;> cases u
  · rw [h.2.2.2.1]; omega
  · rw [h.2.2.1]; omega
  · rw [h.2.1]; omega
  · rw [h.1]; omega

/-- `readFromAt` with one spare byte and the `> max` test is whole -/
theorem readfrom_whole_of (max : Nat) : EntryWhole (max : Int) (readFromAt (max + 1) (fun k => decide ((k : Int) > (max : Int)))) := by
  intro d hpos
  have hl := pktRead_length (max + 1) d
  unfold readFromAt
  constructor
  · intro hle
    have hle' : d.length ≤ max := by omega
    rw [pktRead_whole (max + 1) d (by omega)]
    have : ¬ ((d.length : Int) > (max : Int)) := by omega
    simp [this]
  · intro hgt
    have : ((pktRead (max + 1) d).length : Int) > (max : Int) := by rw [hl]; omega
    simp [this]

/-- **C14 (UDP entry of the server).** `Stream.ReadFrom` on an unordered stream fed by a packet source: every datagram
of 1..max bytes goes out whole as one frame, every longer one is refused (`io.ErrShortBuffer`) and nothing goes out. -/
theorem c14_readfrom_whole (max : Nat) : EntryWhole (max : Int) (readFromPkt true (max : Int)) := by
  have h := readfrom_whole_of max
  unfold readFromPkt
  rw [(gen_readfrom (max : Int)).1]
  have : (fun k : Nat => Gen.Datagram.readFromRefuses (k : Int) (max : Int)) = (fun k : Nat => decide ((k : Int) > (max : Int))) := by
    funext k; exact gen_readfrom_refuses _ _
  rw [this]
  have hn : ((max : Int) + 1).toNat = max + 1 := by omega
  rw [hn]; exact h

/-- byte-stream sources are treated as before the repair: read length = the maximum, never refused, so the frames are
the consecutive chunks of at most `max` bytes (one step of the loop shown) -/
theorem c14_readfrom_stream_unchanged (u : Bool) (max : Nat) (rest : Bytes) (sent : List Bytes) (fuel : Nat) (h : 0 < rest.length) :
    readFromStreamLoop (Gen.Datagram.readFromLen (max : Int) false u).toNat (fun k => Gen.Datagram.readFromRefuses (k : Int) (max : Int)) (fuel + 1) rest sent
      = readFromStreamLoop max (fun k => Gen.Datagram.readFromRefuses (k : Int) (max : Int)) fuel (rest.drop max) (sent ++ [rest.take max]) := by
  have hl : (Gen.Datagram.readFromLen (max : Int) false u).toNat = max := by
    cases u
    · rw [(gen_readfrom (max : Int)).2.2.2.1]; omega
    · rw [(gen_readfrom (max : Int)).2.2.1]; omega
  rw [hl, readFromStreamLoop]
  have h0 : ¬ rest.length = 0 := by omega
  have hr : Gen.Datagram.readFromRefuses ((min max rest.length : Nat) : Int) (max : Int) = false := by
    rw [gen_readfrom_refuses]; simp only [decide_eq_false_iff_not]; omega
  simp [h0, hr]

/-- the pinned tree read with exactly `max` bytes of room and had no size test: the statement is false for it (a
16133-byte datagram goes out as a 16132-byte message) -/
theorem readfrom_not_whole (max : Nat) : ¬ EntryWhole (max : Int) (readFromAt max (fun _ => false)) := by
  intro h
  have hlen : (List.replicate (max + 1) (0 : UInt8)).length = max + 1 := List.length_replicate
  have h1 := (h (List.replicate (max + 1) 0) (by rw [hlen]; omega)).2 (by rw [hlen]; omega)
  simp [readFromAt] at h1

theorem c14_readfrom_pinned_witness : ¬ EntryWhole 16132 (readFromAt 16132 (fun _ => false)) :=
  readfrom_not_whole 16132

example : readFromAt 6 (fun k => decide ((k : Int) > 5)) [1, 2, 3, 4, 5] = ([[1, 2, 3, 4, 5]], .ok) ∧
    readFromAt 6 (fun k => decide ((k : Int) > 5)) [1, 2, 3, 4, 5, 6, 7] = ([], .errShortBuffer) ∧
    readFromAt 5 (fun _ => false) [1, 2, 3, 4, 5, 6, 7] = ([[1, 2, 3, 4, 5]], .ok) := by decide

end C14

#print axioms C14.c14_inv
#print axioms C14.c14_fifo_whole
#print axioms C14.c14_short
#print axioms C14.c14_drain
#print axioms C14.c14_oversize
#print axioms C14.c14_isolation
#print axioms C14.gen_structure
#print axioms C14.c14_exactly_once
#print axioms C14.c14_entry_whole
#print axioms C14.c14_readfrom_whole
