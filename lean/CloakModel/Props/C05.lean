import CloakModel.Model.TLSRecord
import CloakModel.Lemmas.Framing

/-! # C05 — Record framing survives any TCP segmentation and concurrent writers

(1) bridging lemmas: the *extracted* guards, slice bounds, read primitives and write count of
`TLSConn.Read/Write` (`Gen.Record.*`) mean what the proofs need; (2) `tlsRead_spec`: one model read over
ANY chunking equals a specification that only sees the concatenated byte stream; (3) the property
theorems `c05_seg_independent`, `c05_roundtrip`, `c05_oversize`, `c05_no_truncation`, `c05_writers`
(+ `c05_writers_read`), and the refutation `c05_writers_witness2` for two underlying writes.

The WebSocket half of the property is **partial**: gorilla/websocket's framing is assumed to be a
reliable message channel; what is tied here is Cloak's own logic around it (`gen_ws`). -/
set_option linter.unusedSimpArgs false
set_option linter.unusedVariables false

/-- closes `extractedBoolTerm = true ↔ arithmetic`, whatever Boolean shape the Go condition has -/
macro "gen_bool" : tactic => `(tactic|
  (simp only [Bool.and_eq_true, Bool.or_eq_true, Bool.not_eq_true', decide_eq_true_eq, decide_eq_false_iff_not]; omega))

namespace C05
open Rec Gen.Record

/-! ## 1. Extracted facts mean what the proofs need -/

theorem gen_shortbuf (b : Nat) : tlsReadShortBuf (b : Int) = true ↔ b < 5 := by
  unfold tlsReadShortBuf; gen_bool

theorem gen_oversize (d b : Nat) : tlsReadOversize (d : Int) (b : Int) = true ↔ b < d := by
  unfold tlsReadOversize; gen_bool

theorem gen_hdr_len (d b : Int) : tlsReadHdrLo d b = 0 ∧ sliceLen (tlsReadHdrLo d b) (tlsReadHdrHi d b) = 5 := by
  unfold sliceLen tlsReadHdrLo tlsReadHdrHi; omega

theorem gen_body_len (d b : Nat) :
    tlsReadBodyLo (d : Int) (b : Int) = 0 ∧ sliceLen (tlsReadBodyLo (d : Int) (b : Int)) (tlsReadBodyHi (d : Int) (b : Int)) = d := by
  unfold sliceLen tlsReadBodyLo tlsReadBodyHi; omega

theorem gen_len_field : tlsReadLenLo.toNat = 3 ∧ tlsReadLenHi.toNat = 5 ∧ sliceLen tlsReadLenLo tlsReadLenHi = 2 := by
  unfold sliceLen tlsReadLenLo tlsReadLenHi; omega

theorem gen_toolong (n : Nat) : tlsWriteTooLong (n : Int) = true ↔ 16640 < n := by
  unfold tlsWriteTooLong
  have : (2 : Int) ^ (14 : Int).toNat = 16384 := by decide
  simp only [this]; gen_bool

theorem gen_len_bytes (n : Nat) (h : n < 65536) :
    (tlsWriteLenHi (n : Int)).toNat = n / 256 ∧ (tlsWriteLenLo (n : Int)).toNat = n % 256 := by
  unfold tlsWriteLenHi tlsWriteLenLo
  have : (2 : Int) ^ (8 : Int).toNat = 256 := by decide
  rw [this]; omega

/-- structural facts of `TLSConn.Read`/`Write` the model relies on: two reads of the connection, both
`io.ReadFull`; guards return `io.ErrShortBuffer` without reading; statement order; the prefix
`[23,3,3]` sits in the pooled buffer, which is fetched per call, extended by the two length bytes and
the message, written with ONE `Conn.Write` (not in a loop), reset to the prefix length and returned;
over-long messages are refused before anything is written. -/
theorem gen_structure :
    tlsReadCalls = 2 ∧ tlsReadHdrFull = true ∧ tlsReadBodyFull = true ∧
    tlsReadGuardsReturnShortBuffer = true ∧ tlsReadOrder = true ∧ recordLayerLength = 5 ∧
    tlsWritePrefix = [23, 3, 3] ∧ tlsWriteResetLen = tlsWritePrefix.length ∧
    tlsWriteSingleWrite = 1 ∧ tlsWriteNotInLoop = true ∧ tlsWriteBufferDiscipline = true ∧
    tlsWriteRefusesBeforeWriting = true := by decide

/-- WebSocket half (partial): `WriteMessage` is the only message-producing call of `Write` and runs
between `writeM.Lock()` and `writeM.Unlock()`; `Read` takes ONE `NextReader` and loops `r.Read(buf[n:])`
until `io.EOF`, turning a zero-length read (buffer full) into an error. -/
theorem gen_ws : wsWriteUnderMutex = true ∧ wsWriteMessages = 1 ∧ wsReadLoop = true := by decide

/-! ## 2. One read sees only the concatenated stream -/

/-- declared length of the record at the head of a flat stream: big-endian bytes 3..4 -/
def specLen (s : Bytes) : Nat := beNat ((s.drop 3).take 2)

/-- `TLSConn.Read` specified on the flat byte stream -/
def specRead (bufLen : Nat) (s : Bytes) : Except RErr Bytes × Bytes :=
  if bufLen < 5 then (.error .shortBuf, s)
  else if s.length < 5 then (.error .eof, [])
  else if bufLen < specLen s then (.error .oversize, s.drop 5)
  else if s.length < 5 + specLen s then (.error .eof, [])
  else (.ok ((s.drop 5).take (specLen s)), s.drop (5 + specLen s))

def specAll : List Nat → Bytes → List (Except RErr Bytes)
  | [], _ => []
  | b :: bs, s => (specRead b s).1 :: specAll bs (specRead b s).2

theorem declaredLen_take5 (s : Bytes) (h : 5 ≤ s.length) : declaredLen (s.take 5) = specLen s := by
  unfold declaredLen specLen
  obtain ⟨h3, h5, h2⟩ := gen_len_field
  rw [h3, h5, h2]
  have : (s.take 5).length = 5 := by simp; omega
  simp only [this, Nat.sub_self, List.replicate_zero, List.append_nil]
  congr 1
  rw [List.drop_take]
  simp [List.take_take]

theorem tlsRead_spec (bufLen : Nat) (cs : Chunks) :
    (tlsRead bufLen cs).1 = (specRead bufLen cs.flatten).1 ∧
    (tlsRead bufLen cs).2.flatten = (specRead bufLen cs.flatten).2 := by
  obtain ⟨_, hH, hB, _⟩ := gen_structure
  unfold tlsRead specRead
  by_cases hb : bufLen < 5
  · rw [if_pos ((gen_shortbuf bufLen).2 hb), if_pos hb]; exact ⟨rfl, rfl⟩
  · have hnb : ¬ tlsReadShortBuf (bufLen : Int) = true := fun h => hb ((gen_shortbuf bufLen).1 h)
    rw [if_neg hnb, if_neg hb, hH, hB]
    have h5 := (gen_hdr_len 0 (bufLen : Int)).2
    rw [h5]
    unfold readWith
    simp only [if_true]
    cases hr : readFull 5 cs with
    | none =>
      have := readFull_none hr
      rw [if_pos this]; exact ⟨rfl, rfl⟩
    | some pr =>
      obtain ⟨hdr, rest⟩ := pr
      obtain ⟨hlen, hhdr, hrest⟩ := readFull_some hr
      rw [if_neg (by omega)]
      simp only
      have hdl : declaredLen hdr = specLen cs.flatten := by rw [hhdr]; exact declaredLen_take5 _ hlen
      rw [hdl]
      by_cases hov : bufLen < specLen cs.flatten
      · rw [if_pos ((gen_oversize _ _).2 hov), if_pos hov]; exact ⟨rfl, hrest⟩
      · have hno : ¬ tlsReadOversize ((specLen cs.flatten : Nat) : Int) (bufLen : Int) = true :=
          fun h => hov ((gen_oversize _ _).1 h)
        rw [if_neg hno, if_neg hov, (gen_body_len _ _).2]
        cases hr2 : readFull (specLen cs.flatten) rest with
        | none =>
          have h2 := readFull_none hr2
          rw [hrest, List.length_drop] at h2
          rw [if_pos (by omega)]; exact ⟨rfl, rfl⟩
        | some pr2 =>
          obtain ⟨body, rest'⟩ := pr2
          obtain ⟨hlen2, hbody, hrest2⟩ := readFull_some hr2
          rw [hrest, List.length_drop] at hlen2
          rw [if_neg (by omega)]
          simp only
          refine ⟨?_, ?_⟩
          · rw [hbody, hrest]
          · rw [hrest2, hrest, List.drop_drop]

theorem readAll_spec : ∀ (bufs : List Nat) (cs : Chunks), readAll bufs cs = specAll bufs cs.flatten := by
  intro bufs
  induction bufs with
  | nil => intro cs; rfl
  | cons b bs ih =>
    intro cs
    simp only [readAll, specAll]
    rw [(tlsRead_spec b cs).1, ih, (tlsRead_spec b cs).2]

/-! ## 3. The property -/

/-- **C05 (segmentation independence).** The sequence of results of any number of reads — with any
caller buffer sizes, on ANY byte stream, well-formed or not, ending anywhere — depends only on the
concatenation of the chunks in which the stream arrives, not on the chunking. -/
theorem c05_seg_independent (bufs : List Nat) (cs cs' : Chunks) (h : cs.flatten = cs'.flatten) :
    readAll bufs cs = readAll bufs cs' := by
  rw [readAll_spec, readAll_spec, h]

example : readAll [8, 8, 8] [[23, 3, 3, 0, 2, 7, 8, 23, 3, 3, 0], [0, 23], [3, 3, 0, 1, 9]] =
          readAll [8, 8, 8] [[23], [3, 3, 0, 2, 7], [], [8, 23, 3, 3, 0, 0, 23, 3, 3, 0, 1, 9]] :=
  c05_seg_independent _ _ _ (by decide)

theorem hdrOf_length (n : Nat) : (hdrOf n).length = 5 := by
  unfold hdrOf; rw [gen_structure.2.2.2.2.2.2.1]; rfl

theorem record_length (m : Bytes) : (record m).length = 5 + m.length := by
  unfold record; rw [List.length_append, hdrOf_length]

theorem record_drop (m : Bytes) : (record m).drop 5 = m := by
  unfold record
  rw [List.drop_append, List.drop_of_length_le (by rw [hdrOf_length]; omega), hdrOf_length]; simp

theorem specLen_record (m tail : Bytes) (hm : m.length ≤ 16640) : specLen (record m ++ tail) = m.length := by
  unfold specLen record hdrOf
  rw [gen_structure.2.2.2.2.2.2.1]
  obtain ⟨hhi, hlo⟩ := gen_len_bytes m.length (by omega)
  rw [hhi, hlo]
  simp only [List.map_cons, List.map_nil, List.cons_append, List.nil_append, List.drop_succ_cons, List.drop_zero,
    List.take_succ_cons, List.take_zero, beNat, List.foldl_cons, List.foldl_nil, UInt8.toNat_ofNat']
  omega

theorem specRead_record (bufLen : Nat) (m tail : Bytes) (hm : m.length ≤ 16640) (hb : 5 ≤ bufLen) :
    (m.length ≤ bufLen → specRead bufLen (record m ++ tail) = (.ok m, tail)) ∧
    (bufLen < m.length → (specRead bufLen (record m ++ tail)).1 = .error .oversize) := by
  have hl := specLen_record m tail hm
  have hlen : (record m ++ tail).length = 5 + m.length + tail.length := by
    rw [List.length_append, record_length]
  have hd5 : (record m ++ tail).drop 5 = m ++ tail := by
    rw [List.drop_append, record_drop, record_length]
    have : 5 - (5 + m.length) = 0 := by omega
    rw [this, List.drop_zero]
  constructor
  · intro hfit
    unfold specRead
    rw [if_neg (by omega), if_neg (by omega), hl, if_neg (by omega), if_neg (by omega)]
    congr 1
    · rw [hd5]; simp
    · rw [← List.drop_drop, hd5]; simp
  · intro hbig
    unfold specRead
    rw [if_neg (by omega), if_neg (by omega), hl, if_pos hbig]

/-- messages paired with the buffer sizes of the reads that are to receive them: each message is within
the write limit and fits its reader's buffer (which has room for the 5-byte header) -/
inductive Fits : List Bytes → List Nat → Prop
  | nil : Fits [] []
  | cons {m : Bytes} {b : Nat} {ms : List Bytes} {bs : List Nat} :
      m.length ≤ 16640 → 5 ≤ b → m.length ≤ b → Fits ms bs → Fits (m :: ms) (b :: bs)

/-- **C05 (round trip).** Messages `ms` (each within the write limit, zero-length included) written one
`Write` each; the i-th read uses a buffer of `bufs[i] ≥ max 5 |ms[i]|` bytes.  Then under ANY chunking
of the resulting byte stream (followed by anything) the reads return exactly `ms`, one whole message
per read, in order. -/
theorem c05_roundtrip : ∀ (ms : List Bytes) (bufs : List Nat) (tail : Bytes) (cs : Chunks),
    Fits ms bufs →
    cs.flatten = (ms.map record).flatten ++ tail →
    readAll bufs cs = ms.map .ok := by
  intro ms bufs tail cs hf hcs
  rw [readAll_spec, hcs]
  clear hcs cs
  induction hf with
  | nil => rfl
  | @cons m b ms bufs h1 h2 h3 _ ih =>
    simp only [List.map_cons, List.flatten_cons, List.append_assoc, specAll]
    rw [(specRead_record b m _ h1 h2).1 h3]
    simp only [ih]

/-- the writer side accepts exactly the messages of at most 16640 bytes and emits `record m` in one write -/
theorem tlsWrite_eq (m : Bytes) : tlsWrite m = if m.length ≤ 16640 then some [record m] else none := by
  unfold tlsWrite pieces
  rw [gen_structure.2.2.2.2.2.2.2.2.1]
  by_cases h : m.length ≤ 16640
  · have : ¬ tlsWriteTooLong (m.length : Int) = true := fun h' => by have := (gen_toolong _).1 h'; omega
    simp [h, this]
  · have : tlsWriteTooLong (m.length : Int) = true := (gen_toolong _).2 (by omega)
    simp [h, this]

example : readAll [5, 16, 5] [[23, 3, 3, 0], [0, 23, 3, 3, 0, 2, 7], [8, 23, 3, 3, 0, 0]] = [.ok [], .ok [7, 8], .ok []] := by
  have := c05_roundtrip [[], [7, 8], []] [5, 16, 5] [] [[23, 3, 3, 0], [0, 23, 3, 3, 0, 2, 7], [8, 23, 3, 3, 0, 0]]
    (.cons (by decide) (by decide) (by decide) (.cons (by decide) (by decide) (by decide)
      (.cons (by decide) (by decide) (by decide) .nil))) (by decide)
  simpa using this

/-- **C05 (oversize).** A record whose declared length exceeds the reader's buffer is an error, whatever the
chunking; no data is delivered for it. -/
theorem c05_oversize (bufLen : Nat) (cs : Chunks) (hb : 5 ≤ bufLen) (h5 : 5 ≤ cs.flatten.length)
    (hbig : bufLen < specLen cs.flatten) : (tlsRead bufLen cs).1 = .error .oversize := by
  rw [(tlsRead_spec bufLen cs).1]
  unfold specRead
  rw [if_neg (by omega), if_neg (by omega), if_pos hbig]

/-- instance for written records: a message longer than the reader's buffer is reported, not truncated -/
theorem c05_oversize_record (bufLen : Nat) (m tail : Bytes) (cs : Chunks) (hm : m.length ≤ 16640) (hb : 5 ≤ bufLen)
    (hcs : cs.flatten = record m ++ tail) (hbig : bufLen < m.length) : (tlsRead bufLen cs).1 = .error .oversize := by
  rw [(tlsRead_spec bufLen cs).1, hcs]
  exact (specRead_record bufLen m tail hm hb).2 hbig

example : (tlsRead 6 [[23, 3], [3, 0, 7, 1, 2, 3, 4, 5, 6, 7]]).1 = .error .oversize :=
  c05_oversize 6 _ (by decide) (by decide) (by decide)

/-- **C05 (never truncated).** Whenever a read succeeds — on any stream, any chunking, any buffer — the data
returned is the complete body the header declares: exactly `declared length` bytes, the ones following the header. -/
theorem c05_no_truncation (bufLen : Nat) (cs : Chunks) (body : Bytes) (h : (tlsRead bufLen cs).1 = .ok body) :
    body.length = specLen cs.flatten ∧ body = (cs.flatten.drop 5).take (specLen cs.flatten) ∧ body.length ≤ bufLen := by
  rw [(tlsRead_spec bufLen cs).1] at h
  unfold specRead at h
  split at h
  · cases h
  · split at h
    · cases h
    · split at h
      · cases h
      · split at h
        · cases h
        · injection h with h
          subst h
          refine ⟨?_, rfl, ?_⟩ <;> (rw [List.length_take, List.length_drop]; omega)

/-! ### concurrent writers -/

/-- what writer `i` has put on the wire so far -/
def proj (i : Nat) (l : Log) : List Bytes := (l.filter (fun e => e.1 = i)).map (·.2)

theorem proj_append (i : Nat) (l l' : Log) : proj i (l ++ l') = proj i l ++ proj i l' := by
  simp [proj]

/-- conservation: for every writer, (already on the wire) ++ (still pending) never changes — whatever
the schedule, and for ANY number of underlying writes per message -/
theorem run_conserves : ∀ (sched : List Nat) (st : Pend × Log) (i : Nat),
    proj i (sched.foldl stepW st).2 ++ (sched.foldl stepW st).1 i = proj i st.2 ++ st.1 i := by
  intro sched
  induction sched with
  | nil => intro st i; rfl
  | cons j rest ih =>
    intro st i
    rw [List.foldl_cons, ih]
    unfold stepW
    cases hp : st.1 j with
    | nil => rfl
    | cons p ps =>
      simp only [proj_append]
      by_cases hij : i = j
      · subst hij; simp [proj, hp]
      · simp [proj, hij, Ne.symm hij]

def progOf (progs : List (List Bytes)) (i : Nat) : List Bytes :=
  match progs[i]? with
  | some p => p
  | none => []

/-- the messages of a program that `Write` accepts -/
def accepted (p : List Bytes) : List Bytes := p.filter (fun m => m.length ≤ 16640)

theorem pieces_one (m : Bytes) : pieces 1 m = if m.length ≤ 16640 then [record m] else [] := by
  unfold pieces
  by_cases h : m.length ≤ 16640
  · have : ¬ tlsWriteTooLong (m.length : Int) = true := fun h' => by have := (gen_toolong _).1 h'; omega
    simp [h, this]
  · have : tlsWriteTooLong (m.length : Int) = true := (gen_toolong _).2 (by omega)
    simp [h, this]

theorem pend_one (progs : List (List Bytes)) (i : Nat) :
    pendOf 1 progs i = (accepted (progOf progs i)).map record := by
  unfold pendOf progOf accepted
  cases progs[i]? with
  | none => rfl
  | some p =>
    simp only
    induction p with
    | nil => rfl
    | cons m ms ih =>
      rw [List.flatMap_cons, ih, pieces_one]
      by_cases h : m.length ≤ 16640 <;> simp [h, List.filter_cons]

/-- the statement, parametric in the number `k` of underlying writes per `TLSConn.Write` -/
def WritersOK (k : Nat) : Prop :=
  ∀ (progs : List (List Bytes)) (sched : List Nat),
    -- (1) every underlying write is one whole record of a message the writer's program contains
    (∀ e ∈ (runW (pendOf k progs) sched).2, ∃ m ∈ accepted (progOf progs e.1), e.2 = record m) ∧
    -- (2) per writer: (records already on the wire) ++ (records still to be written) is its program, in order
    (∀ i, ∃ done rest, accepted (progOf progs i) = done ++ rest ∧
        proj i (runW (pendOf k progs) sched).2 = done.map record ∧
        (runW (pendOf k progs) sched).1 i = rest.map record)

theorem writers_one : WritersOK 1 := by
  intro progs sched
  have hc : ∀ i, proj i (runW (pendOf 1 progs) sched).2 ++ (runW (pendOf 1 progs) sched).1 i
      = (accepted (progOf progs i)).map record := by
    intro i
    have := run_conserves sched (pendOf 1 progs, []) i
    simp only [proj, List.filter_nil, List.map_nil, List.nil_append] at this
    rw [← pend_one]; exact this
  have h2 : ∀ i, ∃ done rest, accepted (progOf progs i) = done ++ rest ∧
        proj i (runW (pendOf 1 progs) sched).2 = done.map record ∧
        (runW (pendOf 1 progs) sched).1 i = rest.map record := by
    intro i
    obtain ⟨d, r, h1, h2, h3⟩ := List.map_eq_append_iff.1 (hc i).symm
    exact ⟨d, r, h1, h2.symm, h3.symm⟩
  refine ⟨?_, h2⟩
  intro e he
  obtain ⟨d, r, h1, hp, _⟩ := h2 e.1
  have hmem : e.2 ∈ proj e.1 (runW (pendOf 1 progs) sched).2 := by
    unfold proj
    exact List.mem_map.2 ⟨e, List.mem_filter.2 ⟨he, by simp⟩, rfl⟩
  rw [hp] at hmem
  obtain ⟨m, hm, hme⟩ := List.mem_map.1 hmem
  exact ⟨m, by rw [h1]; exact List.mem_append_left _ hm, hme.symm⟩

/-- **C05 (concurrent writers).** With the number of underlying writes per `TLSConn.Write` that the source
contains (`Gen.Record.tlsWriteSingleWrite`, = 1), for ANY number of writer goroutines, ANY programs and ANY
schedule of the underlying writes: every write that hits the connection is one whole record, and each
writer's records appear in its program order (what is on the wire followed by what is pending is the program). -/
theorem c05_writers : WritersOK tlsWriteSingleWrite := by
  rw [gen_structure.2.2.2.2.2.2.2.2.1]; exact writers_one

/-- consequently the reader, under any chunking of the wire and with adequate buffers, gets back exactly
the messages that were written, whole, one per read, in wire order -/
theorem c05_writers_read (progs : List (List Bytes)) (sched : List Nat) (cs : Chunks) (tail : Bytes)
    (hcs : cs.flatten = wire (runW (pendOf tlsWriteSingleWrite progs) sched).2 ++ tail) :
    ∃ ms : List Bytes, (runW (pendOf tlsWriteSingleWrite progs) sched).2.map (·.2) = ms.map record ∧
      readAll (ms.map fun _ => 16640) cs = ms.map .ok := by
  have h1 := (c05_writers progs sched).1
  generalize (runW (pendOf tlsWriteSingleWrite progs) sched).2 = log at h1 hcs
  have hex : ∃ ms : List Bytes, log.map (·.2) = ms.map record ∧ ∀ m ∈ ms, m.length ≤ 16640 := by
    clear hcs
    induction log with
    | nil => exact ⟨[], rfl, by simp⟩
    | cons e l ih =>
      obtain ⟨ms, h, hl⟩ := ih (fun e' he' => h1 e' (List.mem_cons_of_mem _ he'))
      obtain ⟨m, hm, hme⟩ := h1 e (List.mem_cons_self ..)
      refine ⟨m :: ms, by simp [h, hme], ?_⟩
      intro x hx
      rcases List.mem_cons.1 hx with rfl | hx
      · have := (List.mem_filter.1 hm).2; simpa using this
      · exact hl x hx
  obtain ⟨ms, hms, hl⟩ := hex
  refine ⟨ms, hms, ?_⟩
  apply c05_roundtrip ms _ tail cs
  · clear hms
    induction ms with
    | nil => exact .nil
    | cons m ms ih =>
      have := hl m (List.mem_cons_self ..)
      exact .cons this (by show 5 ≤ 16640; decide) this (ih (fun x hx => hl x (List.mem_cons_of_mem _ hx)))
  · rw [hcs]; unfold wire; rw [hms]

example : (runW (pendOf 1 [[[1], [2, 2]], [[3]]]) [1, 0, 0, 1, 0]).2 = [(1, record [3]), (0, record [1]), (0, record [2, 2])] := by
  decide

/-- **Refutation for two underlying writes** (header and body written separately — the mutant of the
property's `why_tests_cant`): already a single writer violates clause (1), and with two writers the reader
is handed a "message" nobody wrote. -/
theorem c05_writers_witness2 : ¬ WritersOK 2 := by
  intro h
  obtain ⟨m, _, hm⟩ := (h [[[1]]] [0]).1 (0, hdrOf 1) (by decide)
  have hl := congrArg List.length hm
  rw [record_length, hdrOf_length] at hl
  have : m = [] := List.eq_nil_of_length_eq_zero (by omega)
  subst this
  revert hm; decide

theorem c05_writers_witness2_damage :
    readAll [16, 16] [wire (runW (pendOf 2 [[[1]], [[2]]]) [0, 1, 0, 1]).2] = [.ok [23], .error .oversize] := by
  decide

end C05

#print axioms C05.c05_seg_independent
#print axioms C05.c05_roundtrip
#print axioms C05.c05_oversize
#print axioms C05.c05_no_truncation
#print axioms C05.c05_writers
#print axioms C05.c05_writers_read
#print axioms C05.c05_writers_witness2
