import CloakModel.Props.C14
import CloakModel.Props.C04

/-! # End-to-end composition for datagram (UDP) mode (C14 ∘ C04)

The receive side of C14 fed with REAL WIRE MESSAGES.  The sending application hands datagram `d` to `Stream.Write` on an
unordered stream: `c14_oversize` says it leaves as exactly ONE frame whose payload is `d` (or is refused whole); the frame
is encoded by the codec of C04 (any of the four methods as a lawful cipher instance, any key, any sequence number, any
admissible padding draw and random tail); the network delivers the encoded messages of all streams in ANY global order,
interleaved with application reads and local closes on any streams; the receiver decodes each message (`deobfuscate`),
looks its stream up by the decoded id and writes the payload into that stream's datagram pipe.  `c04_roundtrip` turns the
run on wire messages into the run on frames (`wire_sim`); `c14_exactly_once` / `c14_isolation` finish: what the reads of
stream `sid` returned, followed by what its pipe still queues, is exactly the list of datagrams written to `sid`, each
whole, in arrival order — whatever happened on the other streams.

The table here is the table of the theorems (`Nat → Option Run`, the per-stream observer keeps every `Read` result);
`C14.sess_sim` relates it to the executable stream table the driver runs against the real session. -/
set_option linter.unusedVariables false

namespace E2EDg
open DG Codec

/-- `m` is what the sending endpoint puts on the wire for the frame `(sid, seq, closing, d)` -/
def IsEnc (C : Crypto) (key : Bytes) (sid seq : Nat) (closing : UInt8) (d m : Bytes) : Prop :=
  ∃ (bufLen padDraw : Nat) (rnd : Bytes),
    let cf : Codec.Frame := ⟨sid, seq, closing, d⟩
    sid < 2^32 ∧ seq < 2^64 ∧ 1 ≤ d.length ∧
    (padDraw : Int) < Gen.Codec.padBound (tagLenOf C) ∧
    rnd.length = padLenOf cf padDraw + tagLenOf C ∧ C04.fitsBuf C cf bufLen padDraw ∧
    obfuscate C key cf bufLen padDraw rnd = .ok m

/-- non-vacuity of `IsEnc`: for every lawful cipher, key, 32-bit stream id, 64-bit sequence number, closing byte, non-empty
payload, admissible padding draw and large-enough buffer there IS such a wire message -/
theorem isEnc_exists (C : Crypto) (hL : Lawful C) (key : Bytes) (sid seq : Nat) (closing : UInt8) (d : Bytes)
    (bufLen padDraw : Nat) (rnd : Bytes) (hsid : sid < 2^32) (hseq : seq < 2^64) (hpl : 1 ≤ d.length)
    (hdraw : (padDraw : Int) < Gen.Codec.padBound (tagLenOf C))
    (hrnd : rnd.length = padLenOf ⟨sid, seq, closing, d⟩ padDraw + tagLenOf C)
    (hbuf : C04.fitsBuf C ⟨sid, seq, closing, d⟩ bufLen padDraw) : ∃ m, IsEnc C key sid seq closing d m := by
  obtain ⟨msg, hm, _⟩ := C04.c04_roundtrip C hL key ⟨sid, seq, closing, d⟩ bufLen padDraw rnd hsid hseq hpl hdraw hrnd hbuf
  exact ⟨msg, bufLen, padDraw, rnd, hsid, hseq, hpl, hdraw, hrnd, hbuf, hm⟩

abbrev Tbl := Nat → Option C14.Run

/-- `recvDataFromRemote` in unordered mode: decode; a message that does not decode is dropped (C11); otherwise the frame is
routed by its decoded stream id (creating the stream) and written into that stream's pipe -/
def recvMsg (C : Crypto) (key : Bytes) (t : Tbl) (m : Bytes) : Tbl :=
  match deobfuscate C key m with
  | .ok fr => C14.gstep t ⟨fr.sid, .w fr.closing.toNat fr.payload, true⟩
  | _ => t

/-- what happens at the receiving endpoint: the network hands over a message the peer produced for a frame of stream
`sid`, the application reads stream `sid` with a buffer of `cap` bytes, or closes it locally -/
inductive NEv
  | msg (sid seq : Nat) (closing : UInt8) (d m : Bytes)
  | read (sid cap : Nat)
  | close (sid : Nat)

def NEv.ok (C : Crypto) (key : Bytes) : NEv → Prop
  | .msg sid seq closing d m => IsEnc C key sid seq closing d m
  | _ => True

def NEv.toG : NEv → C14.GEv
  | .msg sid _ closing d _ => ⟨sid, .w closing.toNat d, true⟩
  | .read sid cap => ⟨sid, .r cap, false⟩
  | .close sid => ⟨sid, .c, false⟩

def recvStep (C : Crypto) (key : Bytes) (t : Tbl) : NEv → Tbl
  | .msg _ _ _ _ m => recvMsg C key t m
  | .read sid cap => C14.gstep t ⟨sid, .r cap, false⟩
  | .close sid => C14.gstep t ⟨sid, .c, false⟩

theorem recv_enc (C : Crypto) (hL : Lawful C) (key : Bytes) (sid seq : Nat) (closing : UInt8) (d m : Bytes)
    (h : IsEnc C key sid seq closing d m) (t : Tbl) :
    recvMsg C key t m = C14.gstep t ⟨sid, .w closing.toNat d, true⟩ := by
  obtain ⟨bufLen, padDraw, rnd, hsid, hseq, hpl, hdraw, hrnd, hbuf, hobf⟩ := h
  obtain ⟨msg, hm, hd⟩ := C04.c04_roundtrip C hL key ⟨sid, seq, closing, d⟩ bufLen padDraw rnd hsid hseq hpl hdraw hrnd hbuf
  rw [hobf] at hm
  injection hm with hm
  subst hm
  unfold recvMsg
  rw [hd]

/-- the run on wire messages is the run on the frames they encode -/
theorem wire_sim (C : Crypto) (hL : Lawful C) (key : Bytes) : ∀ (evs : List NEv) (t : Tbl),
    (∀ e ∈ evs, e.ok C key) → evs.foldl (recvStep C key) t = (evs.map NEv.toG).foldl C14.gstep t := by
  intro evs
  induction evs with
  | nil => intro t _; rfl
  | cons e r ih =>
    intro t h
    simp only [List.foldl_cons, List.map_cons]
    have he := h e (by simp)
    have hstep : recvStep C key t e = C14.gstep t e.toG := by
      cases e with
      | msg sid seq closing d m => exact recv_enc C hL key sid seq closing d m he t
      | read sid cap => rfl
      | close sid => rfl
    rw [hstep]
    exact ih _ (fun x hx => h x (by simp [hx]))

/-- the datagrams the peer sent on stream `sid`, in the order their messages arrived -/
def sentTo (sid : Nat) : List NEv → List Bytes
  | [] => []
  | .msg s _ _ d _ :: r => if s = sid then d :: sentTo sid r else sentTo sid r
  | _ :: r => sentTo sid r

theorem payloads_proj (sid : Nat) : ∀ evs : List NEv,
    C14.payloads (DgDemux.proj sid (evs.map NEv.toG)) = sentTo sid evs := by
  intro evs
  induction evs with
  | nil => rfl
  | cons e r ih =>
    cases e with
    | msg s seq c d m =>
      by_cases h : s = sid
      · simp [DgDemux.proj, NEv.toG, h, sentTo, C14.payloads] at ih ⊢
        exact ih
      · simp [DgDemux.proj, NEv.toG, h, sentTo] at ih ⊢
        exact ih
    | read s cap =>
      by_cases h : s = sid
      · simp [DgDemux.proj, NEv.toG, h, sentTo, C14.payloads] at ih ⊢
        exact ih
      · simp [DgDemux.proj, NEv.toG, h, sentTo] at ih ⊢
        exact ih
    | close s =>
      by_cases h : s = sid
      · simp [DgDemux.proj, NEv.toG, h, sentTo, C14.payloads] at ih ⊢
        exact ih
      · simp [DgDemux.proj, NEv.toG, h, sentTo] at ih ⊢
        exact ih

/-- an event that keeps stream `sid` open: not addressed to it, or a data message (closing byte 0), or a read -/
def KeepsOpen (sid : Nat) : NEv → Prop
  | .msg s _ closing _ _ => s = sid → closing = 0
  | .read _ _ => True
  | .close s => s ≠ sid

theorem open_proj (sid : Nat) : ∀ evs : List NEv, (∀ e ∈ evs, KeepsOpen sid e) →
    ∀ g ∈ DgDemux.proj sid (evs.map NEv.toG), C14.OpenEv g := by
  intro evs h g hg
  simp only [DgDemux.proj, List.mem_filter, List.mem_map, decide_eq_true_eq] at hg
  obtain ⟨⟨e, he, heg⟩, hsid⟩ := hg
  have hk := h e he
  subst heg
  cases e with
  | msg s seq c d m =>
    simp only [NEv.toG] at hsid
    have : c = 0 := hk hsid
    subst this
    simp [C14.OpenEv, NEv.toG]
  | read s cap => simp [C14.OpenEv, NEv.toG]
  | close s =>
    simp only [NEv.toG] at hsid
    exact absurd hsid hk

/-- the sending half: on an unordered stream whose per-frame maximum is `max`, `Stream.Write d` of a non-empty datagram
that fits puts exactly one frame on the wire, and its payload is `d`; a longer one puts nothing (restating `c14_oversize`,
so that the two halves are read together) -/
theorem sender_one_frame (max : Int) (d : Bytes) (hpos : 0 < d.length) :
    ((d.length : Int) ≤ max → swrite true max d = ([d], .ok)) ∧
    ((d.length : Int) > max → swrite true max d = ([], .errShortBuffer)) :=
  ⟨fun h => (C14.c14_oversize max d).2 hpos h, fun h => (C14.c14_oversize max d).1 h hpos⟩

/-- **C14 end to end (exactly once, whole, while the stream stays open).**  Messages of any number of streams, each the
encoding — under ANY lawful cipher instance and key, with ANY sequence number and admissible padding — of one frame,
arrive in ANY global order, interleaved with reads (any buffer sizes) and local closes on any streams.  If nothing closes
stream `sid` (its messages carry closing byte 0, no local close), then whenever `sid` exists at the receiver: its pipe is
open, and the datagrams its reads returned (in order) followed by the datagrams still queued in its pipe are EXACTLY the
datagrams sent on `sid`, in their arrival order: each comes out once, whole, unmixed with any other stream's. -/
theorem c14_end_to_end (C : Crypto) (hL : Lawful C) (key : Bytes) (sid : Nat) (evs : List NEv)
    (hok : ∀ e ∈ evs, e.ok C key) (hopen : ∀ e ∈ evs, KeepsOpen sid e) :
    ∀ s, (evs.foldl (recvStep C key) (fun _ => none)) sid = some s →
      s.p.closed = false ∧
      ∃ q, C14.dataOf s.outs ++ q = sentTo sid evs ∧ s.p.lens = q.map List.length ∧ s.p.buf = q.flatten := by
  intro s hs
  rw [wire_sim C hL key evs _ hok] at hs
  have := C14.c14_exactly_once (evs.map NEv.toG) sid (open_proj sid evs hopen) s hs
  rw [payloads_proj] at this
  exact this

/-- **C14 end to end (isolation, every reachable state, closes included).**  With no assumption on what closes when: what
stream `sid`'s reads returned followed by what its pipe queues is what the pipe accepted, and that is a subsequence — in
order — of the datagrams sent on `sid`.  No byte of another stream's datagram can appear, and no datagram is split,
merged or repeated. -/
theorem c14_end_to_end_isolation (C : Crypto) (hL : Lawful C) (key : Bytes) (sid : Nat) (evs : List NEv)
    (hok : ∀ e ∈ evs, e.ok C key) :
    ∀ s, (evs.foldl (recvStep C key) (fun _ => none)) sid = some s →
      (∃ q, C14.dataOf s.outs ++ q = s.acc ∧ s.p.lens = q.map List.length ∧ s.p.buf = q.flatten) ∧
      s.acc.Sublist (sentTo sid evs) := by
  intro s hs
  rw [wire_sim C hL key evs _ hok] at hs
  have := (C14.c14_isolation (evs.map NEv.toG) sid).2 s hs
  rw [payloads_proj] at this
  exact this

/-- a message that does not decode (garbage, a foreign key, a modified body) changes no stream: the run is the run without it -/
theorem undecodable_dropped (C : Crypto) (key : Bytes) (t : Tbl) (m : Bytes)
    (h : ∀ fr, deobfuscate C key m ≠ .ok fr) : recvMsg C key t m = t := by
  unfold recvMsg
  cases hd : deobfuscate C key m with
  | ok fr => exact absurd hd (h fr)
  | _ => rfl

/-! ### the hypotheses are satisfiable

The executable toy cipher of `Props/C04.lean` (with its AEAD): streams 7 and 9, two datagrams on 7 with one of 9's in
between, a too-small read, then adequate reads. -/
namespace Witness
open C04

def rndOf (sid seq : Nat) (d : Bytes) : Bytes := List.replicate (padLenOf ⟨sid, seq, 0, d⟩ 0 + tagLenOf toy) 1

def enc (sid seq : Nat) (d : Bytes) : Bytes :=
  match obfuscate toy [] ⟨sid, seq, 0, d⟩ 16401 0 (rndOf sid seq d) with
  | .ok m => m
  | _ => []

def wevs : List NEv :=
  [.msg 7 5 0 [1, 2, 3] (enc 7 5 [1, 2, 3]), .msg 9 0 0 [9, 9] (enc 9 0 [9, 9]), .read 7 2,
   .msg 7 2 0 [4] (enc 7 2 [4]), .read 7 3, .read 9 16]

theorem wevs_ok : ∀ e ∈ wevs, e.ok toy [] := by
  intro e he
  simp only [wevs, List.mem_cons, List.mem_nil_iff, or_false] at he
  rcases he with h | h | h | h | h | h <;> subst h
  · refine ⟨16401, 0, rndOf 7 5 [1, 2, 3], by decide, by decide, by decide, by decide, by decide, ?_, by decide⟩
    unfold C04.fitsBuf; decide
  · refine ⟨16401, 0, rndOf 9 0 [9, 9], by decide, by decide, by decide, by decide, by decide, ?_, by decide⟩
    unfold C04.fitsBuf; decide
  · trivial
  · refine ⟨16401, 0, rndOf 7 2 [4], by decide, by decide, by decide, by decide, by decide, ?_, by decide⟩
    unfold C04.fitsBuf; decide
  · trivial
  · trivial

theorem wevs_open : ∀ e ∈ wevs, KeepsOpen 7 e := by
  intro e he
  simp only [wevs, List.mem_cons, List.mem_nil_iff, or_false] at he
  rcases he with h | h | h | h | h | h <;> subst h <;> simp [KeepsOpen]

/-- the run of the witness on the wire messages themselves: stream 7 answered `short`, then `[1,2,3]` whole, and still
queues `[4]`; stream 9 returned its own datagram -/
example :
    ((wevs.foldl (recvStep toy []) (fun _ => none)) 7).map (fun s => (s.outs, s.p.lens, s.p.buf)) =
      some ([.short, .data [1, 2, 3]], [1], [4]) ∧
    ((wevs.foldl (recvStep toy []) (fun _ => none)) 9).map (fun s => s.outs) = some [.data [9, 9]] := by
  constructor <;> decide

end Witness

end E2EDg

#print axioms E2EDg.c14_end_to_end
#print axioms E2EDg.c14_end_to_end_isolation
#print axioms E2EDg.wire_sim
